package main

import (
	"fmt"
	"go/token"
	"go/types"
	"sort"
	"strings"

	"golang.org/x/tools/go/ssa"
)

// C09 — configured resource limits bound what an input can make pdfcpu allocate (partial).

func init() {
	register(&Check{
		ID:  "C09",
		Run: runC09,
		Explanation: "Decides that the configured limits are consulted wherever input-controlled data is materialised: (R1 plumbing) the limit-less decoders StreamDict.Decode / DecodeLength take their limit from the stream's own DecodeLimit (falling back to the package default only when it is zero); every types.NewStreamDict in the reader (pkg/pdfcpu) is followed on every success path by DecodeLimit = decodeLimit(ctx); StreamDict.Clone copies the whole struct (or DecodeLimit explicitly), so a stream migrated into another context keeps its limit; every explicit DecodeWithLimit / DecodeLengthWithLimit call passes a value derived from the configuration (decodeLimit(ctx), limits.MaxDecodeBytes, osd.MaxDecodeBytes, sd.decodeLimit()); filter.NewFilter is called with an explicit limit wherever a stream is decoded; (R2 filters) every implementor of filter.Filter (enumerated through go/types) reaches baseFilter.copyDecoded or consults decodeLimit in its DecodeLength; inside copyDecoded the unbounded io.Copy branches are reachable only for limit < 0 or == maxInt64; in every decoder that writes its output inside a loop after asking decodeLimit (run-length, predictor post-processing) each write is preceded, within the same innermost loop iteration, by a comparison involving the limit — a check hoisted out of the inner loop is rejected; (R3 encoded size) loadEncodedStreamContent reads through readStreamContent(…, streamLimit(ctx)); in readStreamContentBlindly every growth step of the buffer is clamped by the limit (first step) or by what is left of it (min / compare-and-assign against limit − len), so the end marker arriving in the last step cannot carry the result past MaxStreamBytes; (R4 liveness + accumulation) every field of model.ResourceLimits is read by a comparison in non-configuration code, and every limit comparison that sits in a loop which appends/allocates per iteration and subtracts or adds a running total uses a loop-carried accumulator that is actually updated in the loop (a running total that is never incremented makes the limit per-item instead of global). (R5) every make([]T, n) with a non-constant n in pkg/filter is reached only where n is bounded: by data already in memory (len, hex.DecodedLen), by a comparison with the decode limit on every way in (a relational range argument over dominating branch edges with a case split over the ways into a block), or where no limit is configured; a length that is a parameter is checked at every call site. (R6) pdfImage, whose width/height/components size the render buffers, passes validatePDFImageDimensions on every success return — or every caller does after the call. NOT decided: exactness at the boundary (C16), peak memory within a constant factor (a runtime quantity).",
		Rules: []string{
			"C09.R1 flow: decode limits derive from the configuration at every decode site",
			"C09.R2 siblings: every filter bounds its output; per-iteration limit checks in producing loops",
			"C09.R3 MPT: encoded stream size bounded by streamLimit(ctx)",
			"C09.R4 liveness: every ResourceLimits field is compared; running totals are loop-carried",
			"C09.R6 MPT: image descriptors pass the image-limit validator where they are built (or in every caller)",
			"C09.R7 siblings (= C16.R7): every filter value built in pkg/filter carries the configured decode limit",
			"C09.R8 flow (= C08.R1i): the depth a MaxRecursionDepth guard decides on grows around every recursion cycle and is not restarted by the function's own depth-less wrapper",
			"C09.R5 range: sized allocations in pkg/filter are bounded (by data in memory or the decode limit) on every way in",
		},
		Assumptions: []string{"io.CopyN / io.LimitedReader bound what they copy"},
		Technique:   "value-origin slicing of limit arguments; implementor enumeration via go/types with per-implementor reachability; per-iteration must-pass-through (facts killed at loop headers); loop-carried accumulator detection on SSA phis",
		Note:        "Partial. The genuine defect found by R1 (limit-less Decode() ignoring the configured limit) was repaired in /repo.",
	})
}

// limitOrigin: v derives from a configured limit (ResourceLimits field, decodeLimit/streamLimit helpers, stream-level limit fields)
func limitOrigin(v ssa.Value, depth int) bool {
	if v == nil || depth > 8 {
		return false
	}
	v = throughCell(v)
	fp := fieldPath(v)
	for _, suf := range []string{"MaxDecodeBytes", "DecodeLimit", "MaxStreamBytes", "maxDecodeBytes"} {
		if strings.HasSuffix(fp, suf) {
			return true
		}
	}
	switch x := v.(type) {
	case *ssa.Call:
		_, ref := callRef(x)
		if strings.HasSuffix(ref, ".decodeLimit") || strings.HasSuffix(ref, ".streamLimit") || ref == "pkg/pdfcpu.decodeLimit" || ref == "pkg/pdfcpu.streamLimit" {
			return true
		}
	case *ssa.Phi:
		for _, e := range x.Edges {
			if !limitOrigin(e, depth+1) {
				return false
			}
		}
		return len(x.Edges) > 0
	case *ssa.Parameter:
		n := strings.ToLower(x.Name())
		return strings.Contains(n, "maxdecode") || strings.Contains(n, "limit") || strings.Contains(n, "maxstream")
	case *ssa.Convert:
		return limitOrigin(x.X, depth+1)
	case *ssa.Index:
		return limitOrigin(x.X, depth+1)
	case *ssa.UnOp:
		if x.Op == token.MUL {
			if ia, ok := x.X.(*ssa.IndexAddr); ok {
				return limitOrigin(ia.X, depth+1)
			}
		}
	}
	return false
}

func runC09(c *Ctx) {
	p, r := c.P, c.R
	r.MinInst["C09.R1"] = 6
	r.MinInst["C09.R2"] = 8
	r.MinInst["C09.R3"] = 1
	r.MinInst["C09.R4"] = 9
	r.MinInst["C09.R5"] = 3
	checkSizedAllocationsBounded(c)
	r.MinInst["C09.R6"] = 1
	r.MinInst["C09.R7"] = 7
	checkFilterValuesCarryLimitAs(c, "C09.R7")
	r.MinInst["C09.R8"] = 30
	runC08R1iAs(c, newGuardSet(c.P), "C09.R8")
	checkValidatedConstructors(c)
	// ---- R1 (a): limit-less decoders use the stream's own limit
	for _, fid := range []string{"pkg/pdfcpu/types.(*StreamDict).Decode", "pkg/pdfcpu/types.(*StreamDict).DecodeLength"} {
		fn := p.Func(fid)
		if fn == nil {
			r.Bad("C09.R1", fid, "anchor", "", "UNRESOLVED-ANCHOR")
			continue
		}
		ok := false
		eachInstr(fn, func(_ *ssa.BasicBlock, _ int, i ssa.Instruction) {
			if call, isCall := i.(*ssa.Call); isCall {
				if _, ref := callRef(call); strings.HasSuffix(ref, "StreamDict.DecodeLengthWithLimit") {
					a := call.Call.Args
					if lc, isC := a[len(a)-1].(*ssa.Call); isC {
						if _, lref := callRef(lc); strings.HasSuffix(lref, "StreamDict.decodeLimit") {
							ok = true
						}
					}
				}
			}
		})
		if ok {
			r.OK("C09.R1", fid, "uses-stream-limit", p.Pos(fn.Pos()), "passes sd.decodeLimit() to DecodeLengthWithLimit", true)
		} else {
			r.Bad("C09.R1", fid, "uses-stream-limit", p.Pos(fn.Pos()), "the limit-less decoder does not take its limit from the stream's configured DecodeLimit: every lazy decode site (extract, stamp, optimize, keywords, signatures ...) would allow the 512 MiB package default regardless of Limits.MaxDecodeBytes")
		}
	}
	if fn := p.Func("pkg/pdfcpu/types.(*StreamDict).decodeLimit"); fn == nil {
		r.Bad("C09.R1", "pkg/pdfcpu/types.(*StreamDict).decodeLimit", "anchor", "", "UNRESOLVED-ANCHOR")
	} else {
		returnsField := false
		for _, ret := range returnsOf(fn) {
			if strings.HasSuffix(fieldPath(ret.Results[0]), "DecodeLimit") {
				returnsField = true
			}
		}
		if returnsField {
			r.OK("C09.R1", FuncID(fn), "field", p.Pos(fn.Pos()), "returns sd.DecodeLimit when set", true)
		} else {
			r.Bad("C09.R1", FuncID(fn), "field", p.Pos(fn.Pos()), "decodeLimit no longer returns the stream's DecodeLimit field")
		}
	}
	// (a') a copy of a stream dict keeps its limit: StreamDict.Clone either copies the whole struct or the DecodeLimit field
	if fn := p.Func("pkg/pdfcpu/types.(StreamDict).Clone"); fn == nil {
		r.Bad("C09.R1", "pkg/pdfcpu/types.(StreamDict).Clone", "anchor", "", "UNRESOLVED-ANCHOR")
	} else {
		recv := fn.Params[0]
		fromRecv := func(v ssa.Value) bool {
			if v == ssa.Value(recv) {
				return true
			}
			if ld, ok := v.(*ssa.UnOp); ok && ld.Op == token.MUL {
				if al, ok := ld.X.(*ssa.Alloc); ok {
					for _, rf := range *al.Referrers() {
						if st, ok := rf.(*ssa.Store); ok && st.Addr == ssa.Value(al) && st.Val == ssa.Value(recv) {
							return true
						}
					}
				}
			}
			return false
		}
		// the cell(s) whose content is returned
		resultCells := map[ssa.Value]bool{}
		for _, ret := range returnsOf(fn) {
			for _, rv := range ret.Results {
				v := rv
				if mi, ok := v.(*ssa.MakeInterface); ok {
					v = mi.X
				}
				if ld, ok := v.(*ssa.UnOp); ok && ld.Op == token.MUL {
					resultCells[ld.X] = true
				}
			}
		}
		keeps := false
		eachInstr(fn, func(_ *ssa.BasicBlock, _ int, i ssa.Instruction) {
			st, ok := i.(*ssa.Store)
			if !ok {
				return
			}
			// whole-struct copy: store of the receiver value into the returned StreamDict cell
			if typeNameOf(st.Val.Type()) == "StreamDict" && fromRecv(st.Val) && resultCells[st.Addr] {
				keeps = true
			}
			if fa, ok := st.Addr.(*ssa.FieldAddr); ok && !resultCells[fa.X] {
				return
			}
			// explicit field copy
			if strings.HasSuffix(fieldPath(st.Addr), "DecodeLimit") && strings.HasSuffix(fieldPath(st.Val), "DecodeLimit") {
				keeps = true
			}
		})
		if keeps {
			r.OK("C09.R1", FuncID(fn), "clone keeps limit", p.Pos(fn.Pos()), "the clone is a whole-struct copy of the receiver (or copies DecodeLimit explicitly)", true)
		} else {
			r.Bad("C09.R1", FuncID(fn), "clone keeps limit", p.Pos(fn.Pos()), "the cloned stream dict does not inherit DecodeLimit: a stream migrated into another context (AddPages, merge, stamp) decodes under the 512 MiB package default instead of the configured Limits.MaxDecodeBytes")
		}
	}
	// (b) reader sets the limit on every parsed stream dict
	nsd := 0
	for _, fn := range p.Funcs {
		if !strings.HasPrefix(FuncID(fn), "pkg/pdfcpu.") {
			continue
		}
		has := false
		eachInstr(fn, func(_ *ssa.BasicBlock, _ int, i ssa.Instruction) {
			if call, ok := i.(*ssa.Call); ok {
				if _, ref := callRef(call); ref == "pkg/pdfcpu/types.NewStreamDict" {
					has = true
				}
			}
		})
		if !has {
			continue
		}
		nsd++
		runFlowRuleOn(c, FlowRule{
			ID:   "C09.R1",
			Init: []string{"limit-set"},
			Kill: []KillSpec{{Fact: "limit-set", On: Pred{Calls: []string{"pkg/pdfcpu/types.NewStreamDict"}}}},
			Gen: []GenSpec{{Fact: "limit-set", On: Pred{Where: func(i ssa.Instruction) bool {
				st, ok := i.(*ssa.Store)
				return ok && strings.HasSuffix(fieldPath(st.Addr), "DecodeLimit") && limitOrigin(st.Val, 0)
			}, Desc: "sd.DecodeLimit = decodeLimit(ctx)"}, Always: true}},
			Need: []NeedSpec{{Fact: "limit-set", At: Pred{NilReturn: true}, Why: "a stream dictionary parsed from the input is handed on without the configured decode limit: later lazy decodes of it fall back to the 512 MiB default"}},
		}, fn)
	}
	if nsd == 0 {
		r.Bad("C09.R1", "pkg/pdfcpu", "anchor:NewStreamDict", "", "UNRESOLVED-ANCHOR: no NewStreamDict call in the reader")
	}
	// (c) explicit limit arguments
	for _, fn := range p.Funcs {
		fid := FuncID(fn)
		if !strings.HasPrefix(fid, "pkg/") || strings.HasPrefix(fid, "pkg/pdfcpu/types.") {
			continue
		}
		k := 0
		fn := fn
		eachInstr(fn, func(_ *ssa.BasicBlock, _ int, i ssa.Instruction) {
			call, ok := i.(*ssa.Call)
			if !ok {
				return
			}
			_, ref := callRef(call)
			if !strings.HasSuffix(ref, "StreamDict.DecodeWithLimit") && !strings.HasSuffix(ref, "StreamDict.DecodeLengthWithLimit") {
				return
			}
			k++
			a := call.Call.Args
			construct := fmt.Sprintf("%s#%d limit-arg", ref[strings.LastIndex(ref, ".")+1:], k)
			if limitOrigin(a[len(a)-1], 0) {
				r.OK("C09.R1", fid, construct, p.Pos(call.Pos()), "limit argument derives from the configuration", true)
			} else {
				r.Bad("C09.R1", fid, construct, p.Pos(call.Pos()), "the decode limit passed here does not derive from the configured limits (decodeLimit(ctx) / Limits.MaxDecodeBytes / the stream's own limit)")
			}
		})
	}
	// NewFilter with explicit limit in decoding code
	for _, fn := range p.Funcs {
		fid := FuncID(fn)
		fn := fn
		k := 0
		eachInstr(fn, func(_ *ssa.BasicBlock, _ int, i ssa.Instruction) {
			call, ok := i.(*ssa.Call)
			if !ok {
				return
			}
			if _, ref := callRef(call); ref != "pkg/filter.NewFilter" {
				return
			}
			k++
			construct := fmt.Sprintf("NewFilter#%d", k)
			el := variadicElems(call)
			if strings.HasSuffix(fid, "StreamDict).Encode") {
				r.OK("C09.R1", fid, construct, p.Pos(call.Pos()), "encoding pdfcpu's own data: no decode limit needed", false)
				return
			}
			if len(el) == 0 {
				r.Bad("C09.R1", fid, construct, p.Pos(call.Pos()), "filter.NewFilter is called without a decode limit: the filter falls back to the 512 MiB default")
				return
			}
			if limitOrigin(el[0], 0) {
				r.OK("C09.R1", fid, construct, p.Pos(call.Pos()), "explicit limit from the configuration", true)
			} else {
				r.Bad("C09.R1", fid, construct, p.Pos(call.Pos()), "the limit given to filter.NewFilter does not derive from the configured limits")
			}
		})
	}
	// ---- R2: filter implementors
	checkFilterImplementors(c)
	checkCopyDecoded(c)
	checkProducingLoops(c)
	// ---- R3
	RunFlowRule(c, FlowRule{
		ID:   "C09.R3",
		Func: "pkg/pdfcpu.loadEncodedStreamContent",
		Gen: []GenSpec{{Fact: "bounded-read", On: Pred{Where: func(i ssa.Instruction) bool {
			call, ok := i.(*ssa.Call)
			if !ok {
				return false
			}
			_, ref := callRef(call)
			if ref != "pkg/pdfcpu.readStreamContent" && ref != "pkg/pdfcpu.readStreamContentBlindly" {
				return false
			}
			a := call.Call.Args
			return limitOrigin(a[len(a)-1], 0)
		}, Desc: "readStreamContent(…, streamLimit(ctx))"}, Always: true}},
		Need: []NeedSpec{{Fact: "bounded-read", At: Pred{Where: func(i ssa.Instruction) bool {
			st, ok := i.(*ssa.Store)
			return ok && strings.HasSuffix(fieldPath(st.Addr), "Raw")
		}, Desc: "sd.Raw = …"}, Why: "encoded stream bytes are stored without having been read through the MaxStreamBytes-bounded reader"}},
	})
	checkBoundedGrowth(c)
	// ---- R4
	checkLimitLiveness(c)
	checkLoopAccumulators(c)
}

func checkFilterImplementors(c *Ctx) {
	p, r := c.P, c.R
	pk := p.Pkg("pkg/filter")
	if pk == nil {
		r.Bad("C09.R2", "pkg/filter", "anchor", "", "UNRESOLVED-ANCHOR")
		return
	}
	ft, _ := pk.Types.Scope().Lookup("Filter").(*types.TypeName)
	if ft == nil {
		r.Bad("C09.R2", "pkg/filter.Filter", "anchor", "", "UNRESOLVED-ANCHOR")
		return
	}
	iface := ft.Type().Underlying().(*types.Interface)
	var impls []*types.TypeName
	sc := pk.Types.Scope()
	for _, n := range sc.Names() {
		tn, ok := sc.Lookup(n).(*types.TypeName)
		if !ok || tn == ft {
			continue
		}
		if _, isI := tn.Type().Underlying().(*types.Interface); isI {
			continue
		}
		if types.Implements(tn.Type(), iface) || types.Implements(types.NewPointer(tn.Type()), iface) {
			impls = append(impls, tn)
		}
	}
	if len(impls) < 5 {
		r.Bad("C09.R2", "pkg/filter", "implementors", "", fmt.Sprintf("UNRESOLVED-ANCHOR: only %d implementors of filter.Filter found", len(impls)))
		return
	}
	cg := c.CG()
	for _, tn := range impls {
		var m *ssa.Function
		for _, t := range []types.Type{types.NewPointer(tn.Type()), tn.Type()} {
			if sel := p.SSA.MethodSets.MethodSet(t).Lookup(pk.Types, "DecodeLength"); sel != nil {
				if mv := p.SSA.MethodValue(sel); mv != nil {
					m = unwrapSynthetic(mv)
				}
			}
		}
		if m == nil {
			continue
		}
		fid := "pkg/filter." + tn.Name()
		bounded := false
		for f := range cg.Reachable([]*ssa.Function{m}) {
			id := FuncID(f)
			if strings.HasSuffix(id, ".copyDecoded") || strings.HasSuffix(id, ".decodeLimit") {
				bounded = true
			}
		}
		if bounded {
			r.OK("C09.R2", fid, "DecodeLength bounded", p.Pos(m.Pos()), "reaches copyDecoded or consults decodeLimit", true)
		} else {
			r.Bad("C09.R2", fid, "DecodeLength bounded", p.Pos(m.Pos()), "this filter's DecodeLength neither goes through copyDecoded nor consults decodeLimit: its output is unbounded")
		}
	}
}

func checkCopyDecoded(c *Ctx) {
	p, r := c.P, c.R
	fn := p.Func("pkg/filter.(baseFilter).copyDecoded")
	if fn == nil {
		r.Bad("C09.R2", "pkg/filter.(baseFilter).copyDecoded", "anchor", "", "UNRESOLVED-ANCHOR")
		return
	}
	// facts: "unbounded-allowed" on the true edges of limit < 0 and limit == maxInt64; "bounded" after LimitedReader / CopyN
	genE := map[Edge][]string{}
	eachInstr(fn, func(_ *ssa.BasicBlock, _ int, i ssa.Instruction) {
		b, ok := i.(*ssa.BinOp)
		if !ok {
			return
		}
		if b.Op == token.LSS {
			if k, ok := constInt(b.Y); ok && k == 0 {
				for _, e := range condEdges(b, true) {
					genE[e] = append(genE[e], "may-copy")
				}
			}
		}
		if b.Op == token.EQL {
			if k, ok := constInt(b.Y); ok && k == 1<<63-1 {
				for _, e := range condEdges(b, true) {
					genE[e] = append(genE[e], "may-copy")
				}
			}
		}
	})
	ff := NewFactFlow(fn, func(i ssa.Instruction) []string {
		// a LimitedReader was built: copies from it are bounded
		if al, ok := i.(*ssa.Alloc); ok && strings.Contains(al.Type().String(), "LimitedReader") {
			return []string{"may-copy"}
		}
		return nil
	}, genE, nil, nil)
	n := 0
	bad := false
	eachInstr(fn, func(_ *ssa.BasicBlock, _ int, i ssa.Instruction) {
		call, ok := i.(*ssa.Call)
		if !ok {
			return
		}
		_, ref := callRef(call)
		if ref != "io.Copy" && ref != "io.ReadAll" {
			return
		}
		n++
		if !ff.Holds(call, "may-copy") {
			bad = true
			r.Bad("C09.R2", FuncID(fn), fmt.Sprintf("io.Copy#%d", n), p.Pos(call.Pos()), "an unbounded copy of decoder output is reachable although a finite decode limit is configured")
		}
	})
	if !bad && n > 0 {
		r.OK("C09.R2", FuncID(fn), "copies", p.Pos(fn.Pos()), fmt.Sprintf("%d io.Copy sites: unbounded only for limit<0 / maxInt64, otherwise through io.LimitedReader{N: limit+1}", n), true)
	} else if n == 0 {
		r.Bad("C09.R2", FuncID(fn), "copies", p.Pos(fn.Pos()), "UNRESOLVED-ANCHOR: no io.Copy in copyDecoded")
	}
}

// checkProducingLoops: in pkg/filter functions that obtain a limit from decodeLimit and write output inside loops,
// each write is preceded in the same innermost loop iteration by a comparison involving the limit.
func checkProducingLoops(c *Ctx) { checkProducingLoopsAs(c, "C09.R2") }

func checkProducingLoopsAs(c *Ctx, rule string) {
	p, r := c.P, c.R
	n := 0
	for _, fn := range p.Funcs {
		fid := FuncID(fn)
		if !strings.HasPrefix(fid, "pkg/filter.") {
			continue
		}
		var limitVal ssa.Value
		eachInstr(fn, func(_ *ssa.BasicBlock, _ int, i ssa.Instruction) {
			if call, ok := i.(*ssa.Call); ok {
				if _, ref := callRef(call); strings.HasSuffix(ref, ".decodeLimit") {
					limitVal = call
				}
			}
		})
		if limitVal == nil {
			continue
		}
		// writes inside loops
		var writes []*ssa.Call
		eachInstr(fn, func(b *ssa.BasicBlock, _ int, i ssa.Instruction) {
			call, ok := i.(*ssa.Call)
			if !ok || !inLexicalLoop(b) {
				return
			}
			isW := false
			if call.Call.IsInvoke() && strings.HasPrefix(call.Call.Method.Name(), "Write") {
				isW = true
			} else if _, ref := callRef(call); strings.HasPrefix(ref, "bytes.Buffer.Write") {
				isW = true
			}
			if isW {
				writes = append(writes, call)
			}
		})
		if len(writes) == 0 {
			continue
		}
		usesLimit := func(v ssa.Value) bool {
			for _, al := range wideAliases(limitVal) {
				if v == al {
					return true
				}
			}
			return v == limitVal
		}
		ff := NewFactFlow(fn, func(i ssa.Instruction) []string {
			if b, ok := i.(*ssa.BinOp); ok {
				switch b.Op {
				case token.EQL, token.NEQ, token.LSS, token.LEQ, token.GTR, token.GEQ:
					if usesLimit(b.X) || usesLimit(b.Y) {
						return []string{"limit-checked"}
					}
				}
			}
			return nil
		}, nil, func(i ssa.Instruction) []string {
			// entering a loop header / body anew: the check must be repeated
			b := i.Block()
			if len(b.Instrs) > 0 && b.Instrs[0] == i {
				for _, pr := range b.Preds {
					if b.Dominates(pr) { // back edge: b is a loop header
						return []string{"limit-checked"}
					}
				}
			}
			return nil
		}, nil)
		for wi, w := range writes {
			n++
			construct := fmt.Sprintf("write#%d", wi+1)
			if ff.Holds(w, "limit-checked") {
				r.OK(rule, fid, construct, p.Pos(w.Pos()), "output write preceded in the same loop iteration by a comparison with the decode limit", true)
			} else {
				r.Bad(rule, fid, construct, p.Pos(w.Pos()), "an output byte is written inside a loop without the decode limit having been compared in that iteration: a check done once before the loop lets a single run overshoot the limit (and an equality test is then never hit again)")
			}
		}
	}
	if n == 0 {
		r.Bad(rule, "pkg/filter", "anchor:producing-loops", "", "UNRESOLVED-ANCHOR: no producing loop with a decodeLimit found")
	}
}

func checkLimitLiveness(c *Ctx) {
	p, r := c.P, c.R
	pk := p.Pkg("pkg/pdfcpu/model")
	if pk == nil {
		return
	}
	tn, _ := pk.Types.Scope().Lookup("ResourceLimits").(*types.TypeName)
	if tn == nil {
		r.Bad("C09.R4", "pkg/pdfcpu/model.ResourceLimits", "anchor", "", "UNRESOLVED-ANCHOR")
		return
	}
	st := tn.Type().Underlying().(*types.Struct)
	compared := map[string][]string{}
	for _, fn := range p.Funcs {
		fid := FuncID(fn)
		file := p.File(fn.Pos())
		if strings.Contains(file, "parseConfig") || strings.Contains(file, "configuration.go") {
			continue
		}
		eachInstr(fn, func(_ *ssa.BasicBlock, _ int, i ssa.Instruction) {
			b, ok := i.(*ssa.BinOp)
			if !ok {
				return
			}
			switch b.Op {
			case token.LSS, token.LEQ, token.GTR, token.GEQ, token.EQL, token.NEQ:
			default:
				return
			}
			var scan func(v ssa.Value, d int)
			scan = func(v ssa.Value, d int) {
				if d > 4 || v == nil {
					return
				}
				fp := fieldPath(throughCell(v))
				for k := 0; k < st.NumFields(); k++ {
					if strings.HasSuffix(fp, st.Field(k).Name()) {
						compared[st.Field(k).Name()] = append(compared[st.Field(k).Name()], fid)
					}
				}
				switch x := v.(type) {
				case *ssa.BinOp:
					scan(x.X, d+1)
					scan(x.Y, d+1)
				case *ssa.Convert:
					scan(x.X, d+1)
				case *ssa.Call:
					// helper returning the limit (decodeLimit(ctx), streamLimit(ctx))
					if f := staticCallee(x); f != nil && isSubject(f) {
						for _, ret := range returnsOf(f) {
							if len(ret.Results) == 1 {
								scan(ret.Results[0], d+2)
							}
						}
					}
				}
			}
			scan(b.X, 0)
			scan(b.Y, 0)
		})
	}
	for _, fn := range p.Funcs {
		eachInstr(fn, func(_ *ssa.BasicBlock, _ int, i ssa.Instruction) {
			call, ok := i.(*ssa.Call)
			if !ok {
				return
			}
			_, ref := callRef(call)
			if strings.HasSuffix(ref, "StreamDict.DecodeWithLimit") || strings.HasSuffix(ref, "StreamDict.DecodeLengthWithLimit") {
				a := call.Call.Args
				if limitOrigin(a[len(a)-1], 0) {
					compared["MaxDecodeBytes"] = append(compared["MaxDecodeBytes"], FuncID(fn)+" (passed as the decode limit; compared in pkg/filter)")
				}
			}
		})
	}
	for k := 0; k < st.NumFields(); k++ {
		name := st.Field(k).Name()
		fns := compared[name]
		sort.Strings(fns)
		if len(fns) > 0 {
			r.OK("C09.R4", "pkg/pdfcpu/model.ResourceLimits", "field "+name, "", fmt.Sprintf("compared in %d place(s), e.g. %s", len(fns), fns[0]), true)
		} else {
			r.Bad("C09.R4", "pkg/pdfcpu/model.ResourceLimits", "field "+name, "", "no comparison in non-configuration code reads Limits."+name+": the limit can be configured but bounds nothing")
		}
	}
}

// checkLoopAccumulators: limit comparisons of the form  x > limit - total  /  total + x > limit  inside loops.
func checkLoopAccumulators(c *Ctx) {
	p, r := c.P, c.R
	n := 0
	for _, fn := range p.Funcs {
		fid := FuncID(fn)
		if !strings.HasPrefix(fid, "pkg/") {
			continue
		}
		fn := fn
		eachInstr(fn, func(blk *ssa.BasicBlock, _ int, i ssa.Instruction) {
			b, ok := i.(*ssa.BinOp)
			if !ok || !inLexicalLoop(blk) {
				return
			}
			switch b.Op {
			case token.LSS, token.LEQ, token.GTR, token.GEQ:
			default:
				return
			}
			// one side is (limitField - acc) or (acc + x)
			for _, side := range []ssa.Value{b.X, b.Y} {
				ar, ok := side.(*ssa.BinOp)
				if !ok || (ar.Op != token.SUB && ar.Op != token.ADD) {
					continue
				}
				lf := ""
				var acc ssa.Value
				for _, pair := range [][2]ssa.Value{{ar.X, ar.Y}, {ar.Y, ar.X}} {
					fp := fieldPath(throughCell(pair[0]))
					for _, suf := range []string{"MaxXRefEntries", "MaxObjectCount", "MaxObjectStreamCount", "MaxDecodeBytes", "MaxStreamBytes", "MaxImageBytes", "MaxImagePixels"} {
						if strings.HasSuffix(fp, suf) {
							lf, acc = suf, pair[1]
						}
					}
				}
				if lf == "" || ar.Op != token.SUB {
					continue
				}
				// only running totals: a loop-carried value, a local, or a constant left over from a total that is never updated
				switch acc.(type) {
				case *ssa.Phi, *ssa.Const:
				case *ssa.UnOp:
				default:
					continue
				}
				n++
				construct := fmt.Sprintf("%s - running-total", lf)
				// acc must be loop-carried: a phi in a loop header with an edge that is an addition
				okAcc := false
				if phi, ok := acc.(*ssa.Phi); ok {
					for _, e := range phi.Edges {
						if add, ok := e.(*ssa.BinOp); ok && add.Op == token.ADD && (add.X == ssa.Value(phi) || add.Y == ssa.Value(phi)) {
							okAcc = true
						}
					}
				}
				if ld, ok := acc.(*ssa.UnOp); ok && ld.Op == token.MUL {
					// spilled local: some store in the loop adds to it
					if al, ok := ld.X.(*ssa.Alloc); ok {
						for _, rf := range *al.Referrers() {
							if st, ok := rf.(*ssa.Store); ok && inLexicalLoop(st.Block()) {
								if add, ok := st.Val.(*ssa.BinOp); ok && add.Op == token.ADD {
									okAcc = true
								}
							}
						}
					}
				}
				if okAcc {
					r.OK("C09.R4", fid, construct, p.Pos(b.Pos()), "the running total subtracted from the limit is loop-carried and incremented in the loop", true)
				} else {
					r.Bad("C09.R4", fid, construct, p.Pos(b.Pos()), "the value subtracted from Limits."+lf+" in this loop is not a running total that is updated in the loop ("+acc.String()+"): each item is compared against the whole budget, so many items together can exceed the limit without being rejected")
				}
			}
		})
	}
	if n == 0 {
		r.Bad("C09.R4", "pkg", "anchor:accumulators", "", "UNRESOLVED-ANCHOR: no `limit - running total` comparison inside a loop found")
	}
}

// c09BoundedGrowers: readers that grow a buffer step by step under a byte limit; the size argument (index) of every growth call
// must be clamped by the limit (first step) or by what is left of it (later steps), so that the buffer can never pass the limit
// even when the terminating marker arrives in the last step.
var c09BoundedGrowers = map[string]struct {
	grow string
	arg  int
}{
	"pkg/pdfcpu.readStreamContentBlindly": {"pkg/pdfcpu.growBufBy", 1},
}

func limitDerived(v ssa.Value, d int) bool {
	if v == nil || d > 6 {
		return false
	}
	if limitOrigin(v, 0) {
		return true
	}
	switch x := v.(type) {
	case *ssa.Convert:
		return limitDerived(x.X, d+1)
	case *ssa.ChangeType:
		return limitDerived(x.X, d+1)
	case *ssa.BinOp:
		if x.Op == token.SUB {
			return limitDerived(x.X, d+1) // limit - used
		}
	}
	return false
}

// clampedByLimit: v = min(x, limit-derived) as a builtin, or a phi that takes a limit-derived value on the branch of a
// comparison against that limit-derived value.
func clampedByLimit(v ssa.Value) bool {
	switch x := v.(type) {
	case *ssa.Call:
		if b, ok := x.Call.Value.(*ssa.Builtin); ok && b.Name() == "min" {
			for _, a := range x.Call.Args {
				if limitDerived(a, 0) {
					return true
				}
			}
		}
	case *ssa.Phi:
		for k, e := range x.Edges {
			if !limitDerived(e, 0) {
				continue
			}
			// the edge comes (directly or through an empty block) from an If comparing against a limit-derived value
			pred := x.Block().Preds[k]
			for hops := 0; hops < 2 && pred != nil; hops++ {
				if len(pred.Preds) == 1 {
					if iff, ok := pred.Preds[0].Instrs[len(pred.Preds[0].Instrs)-1].(*ssa.If); ok {
						if cmp, ok := iff.Cond.(*ssa.BinOp); ok && (limitDerived(cmp.X, 0) || limitDerived(cmp.Y, 0)) {
							return true
						}
					}
				}
				if iff, ok := pred.Instrs[len(pred.Instrs)-1].(*ssa.If); ok {
					if cmp, ok := iff.Cond.(*ssa.BinOp); ok && (limitDerived(cmp.X, 0) || limitDerived(cmp.Y, 0)) {
						return true
					}
				}
				if len(pred.Preds) != 1 {
					break
				}
				pred = pred.Preds[0]
			}
		}
	}
	return false
}

func checkBoundedGrowth(c *Ctx) {
	p, r := c.P, c.R
	for fid, spec := range c09BoundedGrowers {
		fn := p.Func(fid)
		if fn == nil {
			r.Bad("C09.R3", fid, "bounded growth", "", "UNRESOLVED-ANCHOR")
			continue
		}
		n := 0
		eachInstr(fn, func(_ *ssa.BasicBlock, _ int, i ssa.Instruction) {
			call, ok := i.(*ssa.Call)
			if !ok {
				return
			}
			if _, ref := callRef(call); ref != spec.grow || len(call.Call.Args) <= spec.arg {
				return
			}
			n++
			construct := fmt.Sprintf("growth step#%d", n)
			if clampedByLimit(call.Call.Args[spec.arg]) {
				r.OK("C09.R3", fid, construct, p.Pos(call.Pos()), "the step size is clamped by the limit / by what is left of it", true)
			} else {
				r.Bad("C09.R3", fid, construct, p.Pos(call.Pos()), "the buffer grows by a step that is not clamped by the remaining budget: the last step can carry the buffer past MaxStreamBytes, and if the end marker lies in the overshoot an encoded stream larger than the limit is returned")
			}
		})
		if n == 0 {
			r.Bad("C09.R3", fid, "bounded growth", p.Pos(fn.Pos()), "UNRESOLVED-ANCHOR: no call of "+spec.grow)
		}
	}
}

// ---------------- C09.R5 (round 3 of seeding): sized allocations in the filters are bounded ----------------

// proportionalToInput: a length derived from data that is already in memory.
func proportionalToInput(v ssa.Value) bool {
	switch x := v.(type) {
	case *ssa.Call:
		if b, ok := x.Call.Value.(*ssa.Builtin); ok && (b.Name() == "len" || b.Name() == "cap") {
			return true
		}
		_, ref := callRef(x)
		if ref == "encoding/hex.DecodedLen" || ref == "encoding/hex.EncodedLen" {
			return len(x.Call.Args) == 1 && proportionalToInput(x.Call.Args[0])
		}
		if strings.HasSuffix(ref, ".Len") && len(x.Call.Args) == 1 {
			return true // (*bytes.Buffer).Len and friends
		}
	case *ssa.Convert:
		return proportionalToInput(x.X)
	}
	return c16LimitValue(v, 0)
}

// checkSizedAllocationsBounded: every make([]T, n) with a non-constant n in pkg/filter is reached only where n is
// bounded — by data already in memory, or by a comparison with the decode limit on every way in — or where no
// limit is configured (limit < 0). A length that comes in as a parameter is checked at every call site.
func checkSizedAllocationsBounded(c *Ctx) {
	p, r := c.P, c.R
	cg := c.CG()
	newProver := func(fn *ssa.Function) *c31Prover {
		pr := newC31Prover(fn)
		pr.pc = nil
		pr.base = proportionalToInput
		pr.unlimited = func(f c31Fact) bool {
			// limit < 0  (the false edge of limit >= 0)
			if f.kind == "LT" && c16LimitValue(f.a, 0) {
				if n, ok := c31ConstInt(f.b); ok && n == 0 {
					return true
				}
			}
			return false
		}
		return pr
	}
	n := 0
	for _, fn := range p.Funcs {
		if fn.Pkg == nil || fn.Pkg.Pkg.Path() != modPath+"/pkg/filter" {
			continue
		}
		fn := fn
		fid := FuncID(fn)
		k := 0
		eachInstr(fn, func(b *ssa.BasicBlock, _ int, i ssa.Instruction) {
			mk, ok := i.(*ssa.MakeSlice)
			if !ok {
				return
			}
			if _, isConst := mk.Len.(*ssa.Const); isConst {
				return
			}
			k++
			n++
			construct := fmt.Sprintf("make#%d", k)
			pos := p.Pos(mk.Pos())
			pr := newProver(fn)
			if pr.lep(mk.Len, c31Point{b: b}) {
				r.OK("C09.R5", fid, construct, pos, "the length is bounded where the slice is made (data in memory, or compared with the decode limit on every way in)", true)
				return
			}
			// a parameter: look at the call sites
			lenV := mk.Len
			if cv, ok := lenV.(*ssa.Convert); ok {
				lenV = cv.X
			}
			prm, ok := lenV.(*ssa.Parameter)
			idx := -1
			if ok {
				idx = paramIndex(fn, prm)
			}
			if idx < 0 {
				r.Bad("C09.R5", fid, construct, pos, "a slice is allocated with a length that nothing on the way bounds: decode parameters taken from the file (columns, colours, bits) decide how much memory is allocated before any limit is consulted")
				return
			}
			sites := 0
			for _, caller := range cg.In[fn] {
				caller := caller
				eachInstr(caller, func(cb *ssa.BasicBlock, _ int, ci ssa.Instruction) {
					call, ok := ci.(*ssa.Call)
					if !ok {
						return
					}
					if callee := staticCallee(call); callee == nil || unwrapSynthetic(callee) != fn {
						return
					}
					args := call.Call.Args
					if idx >= len(args) {
						return
					}
					sites++
					cpr := newProver(caller)
					cc := fmt.Sprintf("%s <- %s", construct, FuncID(caller))
					if cpr.lep(args[idx], c31Point{b: cb}) {
						r.OK("C09.R5", fid, cc, p.Pos(call.Pos()), "the length handed in is bounded at the call (compared with the decode limit on every way in, or no limit configured)", true)
					} else {
						r.Bad("C09.R5", fid, cc, p.Pos(call.Pos()), "the length handed to "+fn.Name()+" (which allocates slices of that size) is not compared with the decode limit on every path to this call: a row size computed from the stream's decode parameters is allocated unchecked")
					}
				})
			}
			if sites == 0 {
				r.Bad("C09.R5", fid, construct, pos, "UNDECIDED: the length is a parameter and no static call site was found")
			}
		})
	}
	if n == 0 {
		r.Bad("C09.R5", "pkg/filter", "anchor", "", "UNRESOLVED-ANCHOR: no sized allocation found in pkg/filter")
	}
}

// ---------------- C09.R6 (round 3 of seeding): image descriptors are validated where they are made ----------------

// c09ValidatedConstructors: functions that build a descriptor whose dimensions size later allocations, and the
// validator that compares those dimensions with the configured image limits.
var c09ValidatedConstructors = map[string]string{
	"pkg/pdfcpu.pdfImage": "pkg/pdfcpu.validatePDFImageDimensions",
}

// checkValidatedConstructors: every success return of the constructor has passed the validator; failing that,
// every caller passes the validator on every success path after the call. A validation moved into ONE caller
// leaves the other callers (the DCT/CMYK renderer) allocating width × height buffers from unchecked dimensions.
func checkValidatedConstructors(c *Ctx) {
	p, r := c.P, c.R
	cg := c.CG()
	for ctor, val := range c09ValidatedConstructors {
		fn := p.Func(ctor)
		if fn == nil {
			r.Bad("C09.R6", ctor, "anchor", "", "UNRESOLVED-ANCHOR")
			continue
		}
		passes := func(f *ssa.Function, after *ssa.Call) (ok bool, where string) {
			ff := NewFactFlow(f, func(i ssa.Instruction) []string {
				if call, isCall := i.(*ssa.Call); isCall {
					if _, ref := callRef(call); ref == val {
						return []string{"v"}
					}
				}
				return nil
			}, nil, nil, nil)
			var reach map[*ssa.BasicBlock]bool
			if after != nil {
				reach = reachableBlocks(after.Block())
				reach[after.Block()] = true
			}
			for _, ret := range returnsOf(f) {
				if reach != nil && !reach[ret.Block()] {
					continue
				}
				if len(ret.Results) == 0 {
					continue
				}
				// an error return hands nothing on; a return whose error may be nil is a success path
				if k, has := returnErrKind(ret); has && k == errNonNil {
					continue
				}
				if !ff.Holds(ret, "v") {
					return false, posOrFn(p, ret, f)
				}
			}
			return true, ""
		}
		if ok, _ := passes(fn, nil); ok {
			r.OK("C09.R6", ctor, "validated at construction", p.Pos(fn.Pos()), "every success return has passed "+val, true)
			continue
		}
		sites := 0
		for _, caller := range cg.In[fn] {
			caller := caller
			eachInstr(caller, func(_ *ssa.BasicBlock, _ int, i ssa.Instruction) {
				call, isCall := i.(*ssa.Call)
				if !isCall {
					return
				}
				if callee := staticCallee(call); callee == nil || unwrapSynthetic(callee) != fn {
					return
				}
				sites++
				construct := fmt.Sprintf("caller %s#%d", FuncID(caller), sites)
				if ok, where := passes(caller, call); ok {
					r.OK("C09.R6", ctor, construct, p.Pos(call.Pos()), "the constructor does not validate, but this caller passes "+val+" on every success path after the call", true)
				} else {
					r.Bad("C09.R6", ctor, construct, p.Pos(call.Pos()), "the descriptor is built without "+val+" and this caller reaches a success return ("+where+") without it either: width × height buffers are then allocated from dimensions taken from the file, with no comparison against the configured image limits")
				}
			})
		}
		if sites == 0 {
			r.Bad("C09.R6", ctor, "validated at construction", p.Pos(fn.Pos()), "the constructor no longer validates and has no static caller that could: "+val+" is not on the way to a success return")
		}
	}
}
