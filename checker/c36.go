package main

import (
	"fmt"
	"go/token"
	"go/types"
	"sort"
	"strings"

	"golang.org/x/tools/go/ssa"
)

// C36.R4 / C36.R5: two writer/reader agreement clauses of the bookmark round trip.

// c36OptionalKeys: outline item entries the reader (pkg/pdfcpu.bookmark) takes only when present, leaving the
// Bookmark field nil / false otherwise. The writer therefore has to write them whenever the field is set.
var c36OptionalKeys = map[string]string{
	"C": "Bookmark.Color (nil when /C is absent)",
	"F": "Bookmark.Bold / Italic (false when /F is absent)",
}

// c36TitleEncoders: the encoders whose output the title reader (types.StringLiteralToString / HexLiteralToString)
// identifies without guessing: UTF-16BE with byte order mark. Anything else goes through the reader's
// "valid UTF-8, else PDFDocEncoding" heuristic, which is not injective.
var c36TitleEncoders = map[string]bool{
	"pkg/pdfcpu/types.EscapedUTF16String": true,
	"pkg/pdfcpu/types.EncodeUTF16String":  true,
}

// c36Transparent: functions that keep the encoding of their argument (argument index).
var c36Transparent = map[string]int{
	"pkg/pdfcpu/types.Escape": 0,
}

func bookmarkWriterFuncs(p *Program) []*ssa.Function {
	var out []*ssa.Function
	for _, fn := range p.Funcs {
		if !strings.HasSuffix(p.Fset.Position(fn.Pos()).Filename, "pkg/pdfcpu/bookmark.go") {
			continue
		}
		out = append(out, fn)
	}
	sort.Slice(out, func(i, j int) bool { return FuncID(out[i]) < FuncID(out[j]) })
	return out
}

func isDictMap(t types.Type) bool {
	s := t.String()
	return strings.HasSuffix(s, "pkg/pdfcpu/types.Dict") || strings.HasPrefix(s, "map[string]github.com/pdfcpu/pdfcpu/pkg/pdfcpu/types.Object")
}

// guardConds: the branch conditions the execution of block b depends on through a dominating edge.
func guardConds(b *ssa.BasicBlock) []struct {
	cond ssa.Value
	want bool
} {
	var out []struct {
		cond ssa.Value
		want bool
	}
	for x := b.Idom(); x != nil; x = x.Idom() {
		if len(x.Instrs) == 0 {
			continue
		}
		iff, ok := x.Instrs[len(x.Instrs)-1].(*ssa.If)
		if !ok {
			continue
		}
		for si := 0; si < 2; si++ {
			if edgeDominates(Edge{x, si}, b) {
				out = append(out, struct {
					cond ssa.Value
					want bool
				}{iff.Cond, si == 0})
			}
		}
	}
	return out
}

// presenceCond: the condition only asks whether something is there (nil test, zero/length test of an integer,
// a boolean field) — not what its value is.
func presenceCond(v ssa.Value) bool {
	switch x := v.(type) {
	case *ssa.BinOp:
		if isNilConst(x.X) || isNilConst(x.Y) {
			return true
		}
		for _, o := range []ssa.Value{x.X, x.Y} {
			if n, ok := constInt(o); ok && n == 0 {
				return true
			}
		}
		return false
	case *ssa.UnOp:
		if x.Op == token.NOT {
			return presenceCond(x.X)
		}
		if x.Op == token.MUL {
			if fa, ok := x.X.(*ssa.FieldAddr); ok {
				_ = fa
				b, ok := x.Type().Underlying().(*types.Basic)
				return ok && b.Kind() == types.Bool
			}
		}
	case *ssa.Phi:
		for _, e := range x.Edges {
			if _, isConst := e.(*ssa.Const); isConst {
				continue
			}
			if !presenceCond(e) {
				return false
			}
		}
		return true
	case *ssa.Extract:
		// the ok of a comma-ok form
		return x.Index == 1
	}
	return false
}

func checkOptionalAttributesWritten(c *Ctx) {
	p, r := c.P, c.R
	found := map[string]int{}
	for _, fn := range bookmarkWriterFuncs(p) {
		fn := fn
		eachInstr(fn, func(b *ssa.BasicBlock, _ int, i ssa.Instruction) {
			mu, ok := i.(*ssa.MapUpdate)
			if !ok || !isDictMap(mu.Map.Type()) {
				return
			}
			key, ok := constString(mu.Key)
			if !ok {
				return
			}
			what, ok := c36OptionalKeys[key]
			if !ok {
				return
			}
			found[key]++
			var bad []string
			n := 0
			for _, g := range guardConds(b) {
				n++
				if presenceCond(g.cond) {
					continue
				}
				bad = append(bad, p.Pos(g.cond.Pos()))
			}
			construct := "store /" + key
			if len(bad) > 0 {
				r.Bad("C36.R4", FuncID(fn), construct, p.Pos(mu.Pos()), fmt.Sprintf("the entry /%s is written only under a condition on the attribute's value (%s): the reader derives %s, so a bookmark whose attribute has the excluded value loses it on export → import → export", key, strings.Join(bad, ", "), what))
				return
			}
			r.OK("C36.R4", FuncID(fn), construct, p.Pos(mu.Pos()), fmt.Sprintf("/%s is written whenever the attribute is there: %d dominating condition(s), all presence tests (nil / zero / flag)", key, n), true)
		})
	}
	for key := range c36OptionalKeys {
		if found[key] == 0 {
			r.Bad("C36.R4", "pkg/pdfcpu/bookmark.go", "store /"+key, "", "UNRESOLVED-ANCHOR: no function of pkg/pdfcpu/bookmark.go stores the outline item entry /"+key+" that the reader maps to "+c36OptionalKeys[key])
		}
	}
}

// titleLeaves follows the value stored under /Title back to the calls that produced its bytes.
func titleLeaves(p *Program, v ssa.Value, depth int, seen map[ssa.Value]bool, out *[]string, okN *int) {
	if seen[v] || depth > 6 {
		if depth > 6 {
			*out = append(*out, "call depth exceeded at "+p.Pos(v.Pos()))
		}
		return
	}
	seen[v] = true
	switch x := v.(type) {
	case *ssa.MakeInterface:
		titleLeaves(p, x.X, depth, seen, out, okN)
	case *ssa.ChangeType:
		titleLeaves(p, x.X, depth, seen, out, okN)
	case *ssa.Convert:
		titleLeaves(p, x.X, depth, seen, out, okN)
	case *ssa.Phi:
		for _, e := range x.Edges {
			titleLeaves(p, e, depth, seen, out, okN)
		}
	case *ssa.UnOp:
		if x.Op == token.MUL {
			if al, ok := x.X.(*ssa.Alloc); ok {
				n := 0
				for _, rf := range *al.Referrers() {
					if st, ok := rf.(*ssa.Store); ok && st.Addr == ssa.Value(al) {
						n++
						titleLeaves(p, st.Val, depth, seen, out, okN)
					}
				}
				if n > 0 {
					return
				}
			}
			titleLeaves(p, x.X, depth, seen, out, okN)
			return
		}
		*out = append(*out, x.String()+" at "+p.Pos(x.Pos()))
	case *ssa.Extract:
		if call, ok := x.Tuple.(*ssa.Call); ok {
			titleCall(p, call, x.Index, depth, seen, out, okN)
			return
		}
		*out = append(*out, x.String()+" at "+p.Pos(x.Pos()))
	case *ssa.Call:
		titleCall(p, x, 0, depth, seen, out, okN)
	case *ssa.Const:
		if x.IsNil() {
			return
		}
		*out = append(*out, "constant "+x.String())
	default:
		*out = append(*out, fmt.Sprintf("%s (%T) at %s", v.String(), v, p.Pos(v.Pos())))
	}
}

func titleCall(p *Program, call *ssa.Call, idx int, depth int, seen map[ssa.Value]bool, out *[]string, okN *int) {
	_, ref := callRef(call)
	if c36TitleEncoders[ref] {
		*okN++
		return
	}
	if ai, ok := c36Transparent[ref]; ok && ai < len(call.Call.Args) {
		titleLeaves(p, call.Call.Args[ai], depth, seen, out, okN)
		return
	}
	callee := staticCallee(call)
	if callee == nil || !isSubject(callee) || len(callee.Blocks) == 0 {
		*out = append(*out, "result of "+ref+" at "+p.Pos(call.Pos()))
		return
	}
	for _, ret := range returnsOf(callee) {
		if idx < len(ret.Results) {
			titleLeaves(p, ret.Results[idx], depth+1, seen, out, okN)
		}
	}
}

func checkTitleEncoding(c *Ctx) {
	p, r := c.P, c.R
	n := 0
	for _, fn := range bookmarkWriterFuncs(p) {
		fn := fn
		eachInstr(fn, func(b *ssa.BasicBlock, _ int, i ssa.Instruction) {
			mu, ok := i.(*ssa.MapUpdate)
			if !ok || !isDictMap(mu.Map.Type()) {
				return
			}
			if key, ok := constString(mu.Key); !ok || key != "Title" {
				return
			}
			n++
			var bad []string
			okN := 0
			titleLeaves(p, mu.Value, 0, map[ssa.Value]bool{}, &bad, &okN)
			if len(bad) > 0 || okN == 0 {
				r.Bad("C36.R5", FuncID(fn), "store /Title", p.Pos(mu.Pos()), fmt.Sprintf("the title bytes can come from something other than the UTF-16BE-with-BOM encoder (%s): the reader tells such strings apart only by guessing valid UTF-8 before PDFDocEncoding, so some titles read back as different text", strings.Join(dedupStrings(bad), "; ")))
				return
			}
			r.OK("C36.R5", FuncID(fn), "store /Title", p.Pos(mu.Pos()), fmt.Sprintf("every source of the stored title (%d) is the byte-order-marked UTF-16BE encoder, which the reader decodes without guessing", okN), true)
		})
	}
	if n == 0 {
		r.Bad("C36.R5", "pkg/pdfcpu/bookmark.go", "store /Title", "", "UNRESOLVED-ANCHOR: no function of pkg/pdfcpu/bookmark.go stores an outline item /Title")
	}
}

// ---------------- C36.R6 (round 3 of seeding): the resolver consults the store the writer registers in ----------------

// checkDestinationStoreOrder: imported bookmarks get a named destination that bmDict registers in the Dests NAME TREE
// (ctx.Names["Dests"].Add). XRefTable.DereferenceDestArray resolves a name for export; a document may also carry a
// legacy catalog /Dests dictionary with the same key. The name tree has to be asked first on every path, otherwise a
// legacy entry shadows the destination the import just created and the bookmark comes back with another page.
func checkDestinationStoreOrder(c *Ctx) {
	p, r := c.P, c.R
	fid := "pkg/pdfcpu/model.(*XRefTable).DereferenceDestArray"
	fn := p.Func(fid)
	if fn == nil {
		r.Bad("C36.R6", fid, "anchor", "", "UNRESOLVED-ANCHOR")
		return
	}
	// the writer side: does bmDict register in Names["Dests"]?
	writerTree := false
	if w := p.Func("pkg/pdfcpu.bmDict"); w != nil {
		eachInstr(w, func(_ *ssa.BasicBlock, _ int, i ssa.Instruction) {
			if lk, ok := i.(*ssa.Lookup); ok && strings.HasSuffix(fieldPath(lk.X), "Names") {
				if k, ok := constString(lk.Index); ok && k == "Dests" {
					writerTree = true
				}
			}
		})
	}
	if !writerTree {
		r.Bad("C36.R6", "pkg/pdfcpu.bmDict", "destination store", "", "UNRESOLVED-ANCHOR: the bookmark writer no longer registers destinations in Names[\"Dests\"]")
		return
	}
	isTree := func(i ssa.Instruction) bool {
		lk, ok := i.(*ssa.Lookup)
		if !ok || !strings.HasSuffix(fieldPath(lk.X), "Names") {
			return false
		}
		k, ok := constString(lk.Index)
		return ok && k == "Dests"
	}
	ff := NewFactFlow(fn, func(i ssa.Instruction) []string {
		if isTree(i) {
			return []string{"tree"}
		}
		return nil
	}, nil, nil, nil)
	n := 0
	eachInstr(fn, func(_ *ssa.BasicBlock, _ int, i ssa.Instruction) {
		lk, ok := i.(*ssa.Lookup)
		if !ok || !strings.HasSuffix(fieldPath(lk.X), ".Dests") && fieldPath(lk.X) != "Dests" {
			return
		}
		if isTree(i) {
			return
		}
		n++
		if ff.Holds(lk, "tree") {
			r.OK("C36.R6", fid, "legacy /Dests lookup", p.Pos(lk.Pos()), "the Dests name tree (where the bookmark writer registers) is consulted first on every path", true)
		} else {
			r.Bad("C36.R6", fid, "legacy /Dests lookup", p.Pos(lk.Pos()), "the legacy catalog /Dests dictionary is consulted before the Dests name tree: the bookmark writer registers new destinations in the name tree, so a legacy key equal to a bookmark title shadows the entry an import just created and the bookmark is exported with another page")
		}
	})
	if n == 0 {
		r.OK("C36.R6", fid, "legacy /Dests lookup", p.Pos(fn.Pos()), "no legacy lookup: only the name tree is consulted", true)
	}
}

// ---------------- C36.R7 / R8 (round 4 seeds C36-G, C36-H) ----------------

// constSet: the set of integer constants v can take, through φ and additions / ors of such values (nil = unknown).
func constSet(v ssa.Value, d int) map[int64]bool {
	if d > 8 {
		return nil
	}
	switch x := v.(type) {
	case *ssa.Const:
		if k, ok := c31ConstInt(x); ok {
			return map[int64]bool{k: true}
		}
	case *ssa.Convert:
		return constSet(x.X, d+1)
	case *ssa.Phi:
		out := map[int64]bool{}
		for _, e := range x.Edges {
			s := constSet(e, d+1)
			if s == nil {
				return nil
			}
			for k := range s {
				out[k] = true
			}
		}
		return out
	case *ssa.BinOp:
		a, b := constSet(x.X, d+1), constSet(x.Y, d+1)
		if a == nil || b == nil {
			return nil
		}
		out := map[int64]bool{}
		for i := range a {
			for j := range b {
				switch x.Op {
				case token.ADD:
					out[i+j] = true
				case token.OR:
					out[i|j] = true
				default:
					return nil
				}
			}
		}
		return out
	}
	return nil
}

func checkC36Round4(c *Ctx) {
	p, r := c.P, c.R
	// R7: titles are text strings; the writer's UTF-16 encoder hands the text to unicode/utf16 (surrogate pairs for
	// characters outside the BMP) — the same obligation as C13.R2, decided here because a bookmark title is where such
	// characters (emoji) turn up.
	if fn := p.Func("pkg/pdfcpu/types.EncodeUTF16String"); fn == nil {
		r.Bad("C36.R7", "pkg/pdfcpu/types.EncodeUTF16String", "anchor", "", "UNRESOLVED-ANCHOR")
	} else {
		uses := false
		eachInstr(fn, func(_ *ssa.BasicBlock, _ int, i ssa.Instruction) {
			if call, ok := i.(*ssa.Call); ok {
				if _, ref := callRef(call); ref == "unicode/utf16.Encode" || ref == "unicode/utf16.AppendRune" || ref == "unicode/utf16.EncodeRune" {
					uses = true
				}
			}
		})
		if uses {
			r.OK("C36.R7", FuncID(fn), "surrogate pairs", p.Pos(fn.Pos()), "the encoder delegates to unicode/utf16", true)
		} else {
			r.Bad("C36.R7", FuncID(fn), "surrogate pairs", p.Pos(fn.Pos()), "the UTF-16 encoder does not go through unicode/utf16: a title with a character outside the BMP is written without its surrogate pair and does not read back as the title in the JSON")
		}
	}
	// R8: the style of an outline item is the flag word /F: bit 0 italic, bit 1 bold (ISO 32000 12.3.3), independent of
	// each other. Bookmark.Style can return every combination: the set of constants it can return is {0, 1, 2, 3}.
	if fn := p.Func("pkg/pdfcpu.(Bookmark).Style"); fn == nil {
		r.Bad("C36.R8", "pkg/pdfcpu.(Bookmark).Style", "anchor", "", "UNRESOLVED-ANCHOR")
	} else {
		got := map[int64]bool{}
		decided := true
		for _, ret := range returnsOf(fn) {
			if len(ret.Results) != 1 {
				continue
			}
			s := constSet(ret.Results[0], 0)
			if s == nil {
				decided = false
				continue
			}
			for k := range s {
				got[k] = true
			}
		}
		var ks []string
		for _, k := range []int64{0, 1, 2, 3, 4, 5, 6, 7} {
			if got[k] {
				ks = append(ks, fmt.Sprint(k))
			}
		}
		switch {
		case !decided:
			r.Bad("C36.R8", FuncID(fn), "style flags", p.Pos(fn.Pos()), "UNDECIDED: the returned flag word is not built from constants by additions / ors")
		case len(got) == 4 && got[0] && got[1] && got[2] && got[3]:
			r.OK("C36.R8", FuncID(fn), "style flags", p.Pos(fn.Pos()), "can return 0, 1, 2 and 3: italic and bold are independent bits", true)
		default:
			r.Bad("C36.R8", FuncID(fn), "style flags", p.Pos(fn.Pos()), "Style can return {"+strings.Join(ks, ", ")+"}, the flag word has the independent bits 1 (italic) and 2 (bold), i.e. {0, 1, 2, 3}: a bookmark that is bold and italic is written with one of the two and exports differently from the JSON it was imported from")
		}
	}
}
