package main

import (
	"fmt"
	"go/token"
	"strings"

	"golang.org/x/tools/go/ssa"
)

// ---------- error-return classification ----------

type errKind int

const (
	errUnknown errKind = iota
	errNil
	errNonNil
)

func (k errKind) String() string { return [...]string{"unknown", "nil", "non-nil"}[k] }

var alwaysNonNilFuncs = map[string]bool{
	"fmt.Errorf": true, "errors.New": true,
	"github.com/pkg/errors.Errorf": true, "github.com/pkg/errors.New": true, "github.com/pkg/errors.Wrap": false,
}

// classifyErr decides whether error value v, as observed at instruction `at`, is certainly nil,
// certainly non-nil or unknown. assume lists values assumed non-nil (for param-dependent summaries).
func classifyErr(v ssa.Value, at ssa.Instruction, assume map[ssa.Value]bool, depth int) errKind {
	if depth > 6 {
		return errUnknown
	}
	if assume[v] {
		return errNonNil
	}
	if isNilConst(v) {
		return errNil
	}
	switch x := v.(type) {
	case *ssa.MakeInterface:
		return errNonNil // concrete value boxed into error (typed nil pointer still compares != nil)
	case *ssa.ChangeInterface:
		return classifyErr(x.X, at, assume, depth+1)
	case *ssa.Phi:
		k := errKind(-1)
		for ei, e := range x.Edges {
			ek := classifyErr(e, at, assume, depth+1)
			if ek == errUnknown && ei < len(x.Block().Preds) {
				// the value is observed when control leaves predecessor ei towards the phi's block:
				// if that very edge is the non-nil (nil) edge of a nil check of e, the kind is known.
				pred := x.Block().Preds[ei]
				for si, sb := range pred.Succs {
					if sb != x.Block() {
						continue
					}
					for _, ne := range nilCheckEdges(e, false) {
						if ne.From == pred && ne.Succ == si {
							ek = errNonNil
						}
					}
					for _, ne := range nilCheckEdges(e, true) {
						if ne.From == pred && ne.Succ == si {
							ek = errNil
						}
					}
				}
			}
			if k == -1 {
				k = ek
			} else if k != ek {
				return errUnknown
			}
		}
		if k == -1 {
			return errUnknown
		}
		return k
	case *ssa.UnOp:
		if x.Op == token.MUL {
			// load of a cell: classify the reaching store (same block or unique-predecessor chain)
			if st, clobbered := reachingStore(x); st != nil {
				k := classifyErr(st.Val, at, assume, depth+1)
				if k == errUnknown && at != ssa.Instruction(st) {
					k = classifyErr(st.Val, st, assume, depth+1)
				}
				if clobbered && k == errNil {
					return errUnknown // a deferred closure may have set it
				}
				return k
			}
			if g, ok := x.X.(*ssa.Global); ok && strings.HasPrefix(g.Name(), "Err") || ok && strings.HasPrefix(g.Name(), "err") {
				return errNonNil // package-level sentinel errors (ErrX / errX)
			}
		}
	case *ssa.Extract, *ssa.Call:
		var call *ssa.Call
		idx := 0
		if ex, ok := x.(*ssa.Extract); ok {
			call, _ = ex.Tuple.(*ssa.Call)
			idx = ex.Index
		} else {
			call = x.(*ssa.Call)
		}
		if call != nil {
			if k := classifyCallResult(call, idx, assume, depth); k != errUnknown {
				return k
			}
		}
	}
	// dominated by a non-nil / nil edge of a check of v ?
	if at != nil {
		for _, e := range nilCheckEdges(v, false) {
			if edgeDominates(e, at.Block()) {
				return errNonNil
			}
		}
		for _, e := range nilCheckEdges(v, true) {
			if edgeDominates(e, at.Block()) {
				return errNil
			}
		}
	}
	return errUnknown
}

func classifyCallResult(call *ssa.Call, idx int, assume map[ssa.Value]bool, depth int) errKind {
	_, ref := callRef(call)
	if alwaysNonNilFuncs[ref] {
		return errNonNil
	}
	if ref == "errors.Join" {
		// variadic: slice literal built from args; non-nil if any element is non-nil
		any := false
		allNil := true
		for _, a := range variadicElems(call) {
			switch classifyErr(a, call, assume, depth+1) {
			case errNonNil:
				any = true
				allNil = false
			case errUnknown:
				allNil = false
			}
		}
		if any {
			return errNonNil
		}
		if allNil {
			return errNil
		}
		return errUnknown
	}
	callee := staticCallee(call)
	if callee == nil || callee.Blocks == nil || !isSubject(callee) {
		return errUnknown
	}
	// which result index is it? idx for tuple; for single result idx==0
	a2 := map[ssa.Value]bool{}
	for i, arg := range call.Call.Args {
		if i < len(callee.Params) && isErrorType(callee.Params[i].Type()) && classifyErr(arg, call, assume, depth+1) == errNonNil {
			a2[callee.Params[i]] = true
		}
	}
	// closures: free vars are unknown
	k := errKind(-1)
	for _, ret := range returnsOf(callee) {
		if idx >= len(ret.Results) {
			return errUnknown
		}
		rk := classifyErr(ret.Results[idx], ret, a2, depth+2)
		if k == -1 {
			k = rk
		} else if k != rk {
			return errUnknown
		}
	}
	if k == -1 {
		return errUnknown
	}
	return k
}

// variadicElems returns the element values of a variadic call's trailing slice literal.
func variadicElems(call *ssa.Call) []ssa.Value {
	args := call.Call.Args
	if len(args) == 0 {
		return nil
	}
	last := args[len(args)-1]
	sl, ok := last.(*ssa.Slice)
	if !ok {
		return nil
	}
	al, ok := sl.X.(*ssa.Alloc)
	if !ok {
		return nil
	}
	var out []ssa.Value
	for _, r := range *al.Referrers() {
		ia, ok := r.(*ssa.IndexAddr)
		if !ok {
			continue
		}
		for _, rr := range *ia.Referrers() {
			if st, ok := rr.(*ssa.Store); ok && st.Addr == ia {
				out = append(out, st.Val)
			}
		}
	}
	return out
}

// reachingStore finds the store whose value load ld observes, walking back through the block and
// through chains of unique predecessors. clobbered=true if a rundefers lies in between and a deferred
// closure of the function may overwrite the cell with something other than a join with its old value /
// a non-nil error (then the second result tells the caller that a nil value may have become non-nil;
// if a deferred closure could *clear* the cell, no store is returned at all).
func reachingStore(ld *ssa.UnOp) (st *ssa.Store, clobbered bool) {
	b := ld.Block()
	idx := -1
	for i, x := range b.Instrs {
		if x == ssa.Instruction(ld) {
			idx = i
		}
	}
	for steps := 0; steps < 12; steps++ {
		for i := idx - 1; i >= 0; i-- {
			switch x := b.Instrs[i].(type) {
			case *ssa.Store:
				if x.Addr == ld.X {
					return x, clobbered
				}
			case *ssa.RunDefers:
				if preDeferMode {
					continue
				}
				switch deferEffectOn(ld.Parent(), ld.X) {
				case 2:
					return nil, true
				case 1:
					clobbered = true
				}
			}
		}
		if len(b.Preds) != 1 {
			return nil, clobbered
		}
		b = b.Preds[0]
		idx = len(b.Instrs)
	}
	return nil, clobbered
}

var deferEffectMemo = map[ssa.Value]int{}

// preDeferMode: classify the error a return statement hands to the deferred calls (the function body's own verdict),
// ignoring what deferred closures may do to the named result afterwards.
var preDeferMode = false

// deferEffectOn: 0 = deferred closures of fn never store to cell; 1 = they only store joins with the old
// value or certainly non-nil errors (nil may become non-nil, non-nil stays non-nil); 2 = they may clear it.
func deferEffectOn(fn *ssa.Function, cell ssa.Value) int {
	if v, ok := deferEffectMemo[cell]; ok {
		return v
	}
	eff := 0
	eachInstr(fn, func(_ *ssa.BasicBlock, _ int, i ssa.Instruction) {
		d, ok := i.(*ssa.Defer)
		if !ok {
			return
		}
		mc, ok := d.Call.Value.(*ssa.MakeClosure)
		if !ok {
			// defer f(&err) style (fault.Catch): may set the cell on panic only; treat as join-like
			for _, a := range d.Call.Args {
				if a == cell && eff < 1 {
					eff = 1
				}
			}
			return
		}
		cl := mc.Fn.(*ssa.Function)
		for bi, bnd := range mc.Bindings {
			if bnd != cell {
				continue
			}
			fv := cl.FreeVars[bi]
			eachInstr(cl, func(_ *ssa.BasicBlock, _ int, ci ssa.Instruction) {
				st, ok := ci.(*ssa.Store)
				if !ok || st.Addr != ssa.Value(fv) {
					return
				}
				if eff < 1 {
					eff = 1
				}
				okStore := false
				if call, ok := st.Val.(*ssa.Call); ok {
					if _, ref := callRef(call); ref == "errors.Join" {
						for _, e := range variadicElems(call) {
							if l, ok := e.(*ssa.UnOp); ok && l.Op == token.MUL && l.X == ssa.Value(fv) {
								okStore = true
							}
						}
					}
				}
				if !okStore && classifyErr(st.Val, st, nil, 3) == errNonNil {
					okStore = true
				}
				if !okStore {
					eff = 2
				}
			})
		}
	})
	deferEffectMemo[cell] = eff
	return eff
}

func reachingStoreInBlock(ld *ssa.UnOp) *ssa.Store {
	var last *ssa.Store
	for _, i := range ld.Block().Instrs {
		if i == ssa.Instruction(ld) {
			return last
		}
		if st, ok := i.(*ssa.Store); ok && st.Addr == ld.X {
			last = st
		}
	}
	return nil
}

// edgeDominates: taking edge e is necessary to reach block b.
func edgeDominates(e Edge, b *ssa.BasicBlock) bool {
	s := e.From.Succs[e.Succ]
	if len(s.Preds) != 1 {
		return false
	}
	return s == b || s.Dominates(b)
}

// returnErrKind classifies the error result of a Return (last result of type error). ok=false if fn has no error result.
func returnErrKind(ret *ssa.Return) (errKind, bool) {
	fn := ret.Parent()
	res := fn.Signature.Results()
	for i := res.Len() - 1; i >= 0; i-- {
		if isErrorType(res.At(i).Type()) {
			return classifyErr(ret.Results[i], ret, nil, 0), true
		}
	}
	return errUnknown, false
}

// ---------- predicates ----------

// Pred selects instructions.
type Pred struct {
	Calls     []string // callee refs (objRef / FuncID for closures); suffix match on "…" not supported: exact
	Deep      bool     // also calls to subject functions that on every non-error path pass a call in Calls (always-summary)
	BodyVerdict bool   // classify returns by the value the body returns, before deferred closures modify the named result
	NilReturn bool     // Return whose error result may be nil (nil or unknown); for functions without error result: every Return
	ErrReturn bool     // Return whose error result may be non-nil (non-nil or unknown)
	Where     func(ssa.Instruction) bool
	Desc      string
}

func (pd Pred) String() string {
	if pd.Desc != "" {
		return pd.Desc
	}
	var s []string
	if len(pd.Calls) > 0 {
		s = append(s, "call "+strings.Join(pd.Calls, "|"))
	}
	if pd.NilReturn {
		s = append(s, "success return")
	}
	if pd.ErrReturn {
		s = append(s, "error return")
	}
	return strings.Join(s, " or ")
}

type summaries struct {
	memo map[string]map[*ssa.Function]int // predkey -> fn -> 0 computing / 1 true / 2 false
}

var summ = &summaries{memo: map[string]map[*ssa.Function]int{}}

func resetSummaries() { summ = &summaries{memo: map[string]map[*ssa.Function]int{}} }

func (pd Pred) matchCall(i ssa.Instruction) bool {
	c, ref := callRef(i)
	if c == nil {
		return false
	}
	if _, isDefer := i.(*ssa.Defer); isDefer {
		return false // a deferred call does not happen here
	}
	for _, want := range pd.Calls {
		if ref == want {
			return true
		}
	}
	if pd.Deep && len(pd.Calls) > 0 {
		if f := staticCallee(c); f != nil && isSubject(f) && f.Blocks != nil {
			return alwaysPasses(f, pd)
		}
	}
	return false
}

// alwaysPasses: every path of f to a return that may be a success return passes the
// success edge of a call matching pd (always-summary; recursion => false).
func alwaysPasses(f *ssa.Function, pd Pred) bool {
	key := strings.Join(pd.Calls, ",")
	m := summ.memo[key]
	if m == nil {
		m = map[*ssa.Function]int{}
		summ.memo[key] = m
	}
	switch m[f] {
	case 1:
		return true
	case 2, 3:
		return false // 3 = in progress (recursion)
	}
	m[f] = 3
	inner := Pred{Calls: pd.Calls, Deep: true}
	ff := NewFactFlow(f, nil, genEdgesFor(f, inner, "p", true), nil, nil)
	gi := func(i ssa.Instruction) []string { return nil }
	_ = gi
	ok := true
	n := 0
	for _, ret := range returnsOf(f) {
		k, has := returnErrKind(ret)
		if has && k == errNonNil {
			continue
		}
		n++
		if !ff.Holds(ret, "p") && !tailReturnsMatching(ret, inner) {
			ok = false
		}
	}
	if n == 0 {
		ok = false
	}
	if ok {
		m[f] = 1
	} else {
		m[f] = 2
	}
	return ok
}

// genEdgesFor computes edge-generation for fact on success edges of calls matching pd in fn.
// Calls without an error result generate at the instruction: those are returned via the second map.
func genEdgesFor(fn *ssa.Function, pd Pred, fact string, successOnly bool) map[Edge][]string {
	out := map[Edge][]string{}
	eachInstr(fn, func(b *ssa.BasicBlock, idx int, i ssa.Instruction) {
		if !pd.match(i) {
			return
		}
		v, ok := i.(ssa.Value)
		if !ok {
			return
		}
		edges, has := successEdges(v)
		if !has && !successOnly {
			return
		}
		if !has {
			// no error result: the call itself is the event — model as an edge-less gen: use all out edges of the block? No:
			// handled by instruction gen in FlowRule. Here (summaries) treat as generated on all successor edges of its block
			// only if it is the last call... keep it simple: generate on every edge leaving the block.
			for si := range b.Succs {
				out[Edge{b, si}] = append(out[Edge{b, si}], fact)
			}
			return
		}
		for _, e := range edges {
			out[e] = append(out[e], fact)
		}
	})
	return out
}

func (pd Pred) match(i ssa.Instruction) bool {
	if pd.Where != nil && !pd.Where(i) {
		return false
	}
	if ret, ok := i.(*ssa.Return); ok {
		if ret.Block() == ret.Parent().Recover {
			return false // panic exit, not a normal return
		}
		if !pd.NilReturn && !pd.ErrReturn {
			return pd.Where != nil && len(pd.Calls) == 0
		}
		if pd.BodyVerdict {
			preDeferMode = true
		}
		k, has := returnErrKind(ret)
		preDeferMode = false
		if !has {
			return pd.NilReturn
		}
		if pd.NilReturn && (k == errNil || k == errUnknown) {
			return true
		}
		if pd.ErrReturn && (k == errNonNil || k == errUnknown) {
			return true
		}
		return false
	}
	if len(pd.Calls) > 0 {
		return pd.matchCall(i)
	}
	if pd.Where != nil && !pd.NilReturn && !pd.ErrReturn {
		return true
	}
	return false
}

// ---------- flow rules ----------

var debugHook func(fn *ssa.Function, ff *FactFlow)

type GenSpec struct {
	Fact    string
	On      Pred
	Always  bool // generate at the instruction regardless of outcome (default: on the success edge when the call returns an error)
	OnTrue  bool // generate on the edge where the bool result is true
	OnFalse bool
	edges   map[Edge]bool // explicit CFG edges on which the fact is established (computed by the rule)
}

type KillSpec struct {
	Fact string
	On   Pred
}

type NeedSpec struct {
	Fact string
	At   Pred
	Why  string
}

// FlowRule is a must-pass-through / typestate rule over one function.
type FlowRule struct {
	ID   string
	Func string // FuncID
	Init []string
	Gen  []GenSpec
	Kill []KillSpec
	Need []NeedSpec
	Min  int // minimum number of Need sites expected (0 => 1)
}

// RunFlowRule evaluates the rule and records obligations.
func RunFlowRule(c *Ctx, fr FlowRule) {
	p, r := c.P, c.R
	fn := p.Func(fr.Func)
	if fn == nil {
		r.Bad(fr.ID, fr.Func, "anchor", "", "UNRESOLVED-ANCHOR: function "+fr.Func+" not found in /repo")
		return
	}
	runFlowRuleOn(c, fr, fn)
}

func runFlowRuleOn(c *Ctx, fr FlowRule, fn *ssa.Function) int {
	p, r := c.P, c.R
	genE := map[Edge][]string{}
	genIm := map[ssa.Instruction][]string{}
	for _, g := range fr.Gen {
		for e := range g.edges {
			genE[e] = append(genE[e], g.Fact)
		}
		if g.edges != nil {
			continue
		}
		eachInstr(fn, func(b *ssa.BasicBlock, idx int, i ssa.Instruction) {
			if !g.On.match(i) {
				return
			}
			v, isVal := i.(ssa.Value)
			if g.Always || !isVal {
				genIm[i] = append(genIm[i], g.Fact)
				return
			}
			if g.OnTrue || g.OnFalse {
				for _, bv := range boolResults(v) {
					for _, a := range aliasesOf(bv) {
						for _, e := range condEdges(a, g.OnTrue) {
							genE[e] = append(genE[e], g.Fact)
						}
					}
				}
				return
			}
			edges, has := successEdges(v)
			if !has {
				genIm[i] = append(genIm[i], g.Fact)
				return
			}
			for _, e := range edges {
				genE[e] = append(genE[e], g.Fact)
			}
		})
	}
	killIm := map[ssa.Instruction][]string{}
	for _, k := range fr.Kill {
		eachInstr(fn, func(b *ssa.BasicBlock, idx int, i ssa.Instruction) {
			if k.On.match(i) {
				killIm[i] = append(killIm[i], k.Fact)
			}
		})
	}
	ff := NewFactFlow(fn, func(i ssa.Instruction) []string { return genIm[i] }, genE, func(i ssa.Instruction) []string { return killIm[i] }, fr.Init)
	sites := 0
	fid := FuncID(fn)
	if debugHook != nil {
		debugHook(fn, ff)
	}
	for _, nd := range fr.Need {
		cnt := map[string]int{}
		eachInstr(fn, func(b *ssa.BasicBlock, idx int, i ssa.Instruction) {
			if !nd.At.match(i) {
				return
			}
			sites++
			label := instrLabel(i)
			cnt[label]++
			construct := fmt.Sprintf("%s needs %s#%d", label, nd.Fact, cnt[label])
			facts, unreachable := ff.At(i)
			if unreachable {
				r.OK(fr.ID, fid, construct, p.Pos(i.Pos()), "unreachable", false)
				return
			}
			if facts[nd.Fact] {
				r.OK(fr.ID, fid, construct, p.Pos(i.Pos()), "every path to this "+label+" establishes '"+nd.Fact+"'", true)
			} else {
				r.Bad(fr.ID, fid, construct, posOrFn(p, i, fn), "some path reaches this "+label+" without '"+nd.Fact+"': "+nd.Why)
			}
		})
	}
	min := fr.Min
	if min == 0 {
		min = 1
	}
	if sites < min {
		r.Bad(fr.ID, fid, "sites", p.Pos(fn.Pos()), fmt.Sprintf("UNRESOLVED-ANCHOR: rule expected at least %d sites (%s) in %s, found %d", min, needDesc(fr), fid, sites))
	}
	return sites
}

func needDesc(fr FlowRule) string {
	var s []string
	for _, n := range fr.Need {
		s = append(s, n.At.String())
	}
	return strings.Join(s, "; ")
}

func posOrFn(p *Program, i ssa.Instruction, fn *ssa.Function) string {
	if i.Pos().IsValid() {
		return p.Pos(i.Pos())
	}
	// returns often have no position: use the function's
	return p.Pos(fn.Pos()) + " (in " + FuncID(fn) + ")"
}

func instrLabel(i ssa.Instruction) string {
	switch x := i.(type) {
	case *ssa.Return:
		k, has := returnErrKind(x)
		if !has {
			return "return"
		}
		return "return(" + k.String() + ")"
	case ssa.CallInstruction:
		_, ref := callRef(x)
		if ref == "" {
			ref = "dynamic"
		}
		return "call:" + ref
	case *ssa.Store:
		return "store"
	}
	return fmt.Sprintf("%T", i)
}

// tailReturnsMatching: the error returned by ret is the error result of a call matching pd
// (`return f(x)`): the call happened and its verdict is handed to the caller unchanged.
func tailReturnsMatching(ret *ssa.Return, pd Pred) bool {
	for _, res := range ret.Results {
		if !isErrorType(res.Type()) {
			continue
		}
		v := res
		if ld, ok := v.(*ssa.UnOp); ok && ld.Op == token.MUL {
			if st, _ := reachingStore(ld); st != nil {
				v = st.Val
			}
		}
		if ex, ok := v.(*ssa.Extract); ok {
			v = ex.Tuple
		}
		if call, ok := v.(*ssa.Call); ok && pd.match(call) {
			return true
		}
	}
	return false
}
