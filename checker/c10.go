package main

import (
	"sort"
	"fmt"
	"strings"

	"golang.org/x/tools/go/ssa"
)

// C10 — cancelling a read stops it promptly with the cancellation error (partial).

func init() {
	register(&Check{
		ID:  "C10",
		Run: runC10,
		Explanation: "Decides the code-shape clauses of cancellation: (R1 propagation) in every function of the read path (pkg/pdfcpu, pkg/pdfcpu/model) that has a context.Context parameter, every call to a function that takes a context passes a value derived from that parameter — context.Background()/TODO() appear only in the documented non-context entry points; (R2 identity of the error) an error obtained from a context-taking callee or from c.Err() is handed on unchanged or wrapped with %w — a fmt.Errorf that renders it with %v/%s (or replaces it by a sentinel) breaks errors.Is(err, ctx.Err()) and is rejected; every `if err := c.Err(); err != nil` returns that error; (R3 polling) every loop in such a function whose body calls a context-taking function of the module polls c.Err() inside the loop on every iteration path before that call (facts are killed at loop headers, so a poll hoisted in front of the loop does not count), unless the callee itself polls before doing any work (always-summary). R2 also requires that on the edge where the error of a context-taking callee is non-nil, every return reached before the context is observed again (immediate successor of the edge and blocks dominated by it) returns an error that depends on the callee's error (itself, %w, errors.Join) or nil (deliberate repair); a different sentinel there renames a cancellation. (R3, extended) in every context-taking function of pkg/pdfcpu and pkg/pdfcpu/model, a loop that does work (a non-builtin call that does not itself take the context) cannot go round without passing c.Err() or a context-taking call; one triaged loop (the stream-keyword walk in buffer, linear since repair b8fff5e6). NOT decided: the latency bound (timing), observation of a pre-cancelled context before any work.",
		Rules: []string{
			"C10.R1 WMC/flow: the caller's context is what callees receive",
			"C10.R2 flow: cancellation errors keep their identity (returned as-is or %w)",
			"C10.R3 per-iteration MPT: work loops poll the context",
		},
		Assumptions: []string{"context.Context.Err() reports cancellation"},
		Technique:   "parameter-derivation check of context arguments; format-verb / error-dependency analysis of fmt.Errorf; per-iteration must-pass-through with loop-header kills and callee always-poll summaries",
		Note:        "Partial: necessary conditions, not the latency bound.",
	})
}

func isContextType(v ssa.Value) bool {
	return v != nil && strings.HasSuffix(v.Type().String(), "context.Context")
}

func ctxParam(fn *ssa.Function) *ssa.Parameter {
	for _, prm := range fn.Params {
		if isContextType(prm) {
			return prm
		}
	}
	return nil
}

func takesContext(f *ssa.Function) bool {
	return f != nil && ctxParam(f) != nil
}

// pollsFirst (always-polls summary): every path through f to a return polls c.Err() on its own context parameter,
// directly or through a callee with the same property.
var pollsFirstMemo = map[*ssa.Function]int{}

func pollsFirst(f *ssa.Function) bool {
	switch pollsFirstMemo[f] {
	case 1:
		return true
	case 2, 3:
		return false
	}
	pollsFirstMemo[f] = 3
	prm := ctxParam(f)
	ok := false
	if prm != nil && f.Blocks != nil {
		polled := map[ssa.Instruction]bool{}
		eachInstr(f, func(_ *ssa.BasicBlock, _ int, i ssa.Instruction) {
			if call, isCall := i.(*ssa.Call); isCall && call.Call.IsInvoke() && call.Call.Method.Name() == "Err" && derivesFromParam(call.Call.Value, prm) {
				polled[i] = true
			}
			// a callee that polls first counts as a poll
			if call, isCall := i.(*ssa.Call); isCall {
				if g := staticCallee(call); g != nil && isSubject(g) && takesContext(g) && g != f && pollsFirst(g) {
					polled[i] = true
				}
			}
		})
		ff := NewFactFlow(f, func(i ssa.Instruction) []string {
			if polled[i] {
				return []string{"polled"}
			}
			return nil
		}, nil, nil, nil)
		// every path to every return has polled (an early return that does no work, e.g. on an empty buffer, is fine:
		// it cannot keep a loop busy) — require it for returns that can follow a call or a loop
		ok = true
		for _, ret := range returnsOf(f) {
			if !ff.Holds(ret, "polled") {
				ok = false
			}
		}
		if len(polled) == 0 {
			ok = false
		}
	}
	if ok {
		pollsFirstMemo[f] = 1
	} else {
		pollsFirstMemo[f] = 2
	}
	return ok
}

var c10BackgroundAllowed = map[string]string{
	"pkg/pdfcpu.Read":                         "documented non-context entry point",
	"pkg/pdfcpu.ReadFile":                     "documented non-context entry point",
	"pkg/pdfcpu/model.ParseObject":            "documented non-context entry point",
	"pkg/pdfcpu/model.ParseObjectAttributes":  "documented non-context entry point",
	"pkg/pdfcpu/model.ObjectStreamDict":       "documented non-context entry point",
}

func runC10(c *Ctx) {
	p, r := c.P, c.R
	r.MinInst["C10.R1"] = 30
	r.MinInst["C10.R2"] = 10
	r.MinInst["C10.R3"] = 5
	checkWorkingLoopsPoll(c)
	pollsFirstMemo = map[*ssa.Function]int{}
	inScope := func(fid string) bool {
		return strings.HasPrefix(fid, "pkg/pdfcpu.") || strings.HasPrefix(fid, "pkg/pdfcpu/model.")
	}
	for _, fn := range p.Funcs {
		fid := FuncID(fn)
		if !inScope(fid) {
			continue
		}
		fn := fn
		// the context in scope: own parameter, or (closures) a captured one
		prm := ctxParam(fn)
		var fv *ssa.FreeVar
		if prm == nil {
			for _, v := range fn.FreeVars {
				if strings.HasSuffix(v.Type().String(), "context.Context") {
					fv = v
				}
			}
		}
		hasCtx := prm != nil || fv != nil
		if hasCtx {
			checkCalleeErrorKept(c, fn)
		}
		// ---- R1
		k := 0
		eachInstr(fn, func(_ *ssa.BasicBlock, _ int, i ssa.Instruction) {
			call, ok := i.(*ssa.Call)
			if !ok {
				return
			}
			_, ref := callRef(call)
			if ref == "context.Background" || ref == "context.TODO" {
				k++
				construct := fmt.Sprintf("%s#%d", ref, k)
				if why, ok := c10BackgroundAllowed[FuncID(rootFunc(fn))]; ok && !hasCtx {
					r.OK("C10.R1", fid, construct, p.Pos(call.Pos()), "allowed: "+why, false)
				} else if hasCtx {
					r.Bad("C10.R1", fid, construct, p.Pos(call.Pos()), "a fresh context is created inside a function that already has the caller's context: work started with it cannot be cancelled")
				} else {
					r.OK("C10.R1", fid, construct, p.Pos(call.Pos()), "no caller context in scope (not on the context read path)", false)
				}
				return
			}
			if !hasCtx {
				return
			}
			for ai, a := range call.Call.Args {
				if !isContextType(a) {
					continue
				}
				k++
				construct := fmt.Sprintf("ctx-arg %s#%d", ref, k)
				derived := false
				if prm != nil && (a == ssa.Value(prm) || derivesFromParam(a, prm)) {
					derived = true
				}
				if fv != nil && (a == ssa.Value(fv)) {
					derived = true
				}
				if ld, ok := a.(*ssa.UnOp); ok && !derived {
					if f2, ok := ld.X.(*ssa.FreeVar); ok && strings.HasSuffix(f2.Type().String(), "context.Context") {
						derived = true
					}
				}
				// context.WithCancel(c) etc.
				if ex, ok := a.(*ssa.Extract); ok && !derived {
					if cc, ok := ex.Tuple.(*ssa.Call); ok {
						if _, r2 := callRef(cc); strings.HasPrefix(r2, "context.With") && len(cc.Call.Args) > 0 && prm != nil && derivesFromParam(cc.Call.Args[0], prm) {
							derived = true
						}
					}
				}
				_ = ai
				if derived {
					r.OK("C10.R1", fid, construct, p.Pos(call.Pos()), "receives the caller's context", false)
				} else {
					r.Bad("C10.R1", fid, construct, p.Pos(call.Pos()), "a context-taking callee receives a context that is not derived from this function's own context parameter: cancelling the read would not reach it")
				}
			}
		})
		if !hasCtx {
			continue
		}
		// ---- R2: error identity
		k = 0
		eachInstr(fn, func(_ *ssa.BasicBlock, _ int, i ssa.Instruction) {
			call, ok := i.(*ssa.Call)
			if !ok {
				return
			}
			if _, ref := callRef(call); ref != "fmt.Errorf" {
				return
			}
			format, ok := constString(call.Call.Args[0])
			if !ok {
				return
			}
			verbs := formatVerbs(format)
			elems := orderedVariadic(call)
			for ei, e := range elems {
				mi, isMI := e.(*ssa.MakeInterface)
				var ev ssa.Value = e
				if isMI {
					ev = mi.X
				}
				if !isErrorType(ev.Type()) && !(isMI && isErrorType(mi.X.Type())) {
					// error already an interface: ChangeInterface
					if ci, ok := e.(*ssa.ChangeInterface); ok && isErrorType(ci.X.Type()) {
						ev = ci.X
					} else {
						continue
					}
				}
				if !errFromContextCallee(ev, prm, 0, map[ssa.Value]bool{}) {
					continue
				}
				k++
				construct := fmt.Sprintf("Errorf#%d arg%d", k, ei)
				if ei < len(verbs) && verbs[ei] == 'w' {
					r.OK("C10.R2", fid, construct, p.Pos(call.Pos()), "error from a context-taking callee is wrapped with %w", true)
				} else {
					v := "?"
					if ei < len(verbs) {
						v = string(verbs[ei])
					}
					r.Bad("C10.R2", fid, construct, p.Pos(call.Pos()), "an error that can be the context's cancellation error is formatted with %"+v+" instead of %w: errors.Is(err, ctx.Err()) no longer holds for the caller")
				}
			}
		})
		// c.Err() result returned
		eachInstr(fn, func(_ *ssa.BasicBlock, _ int, i ssa.Instruction) {
			call, ok := i.(*ssa.Call)
			if !ok || !call.Call.IsInvoke() || call.Call.Method.Name() != "Err" || !isContextType(call.Call.Value) {
				return
			}
			k++
			construct := fmt.Sprintf("c.Err()#%d", k)
			// on the non-nil edge the function returns (an error depending on this value, or the error of the context-taking
			// callee it has just observed) without calling another context-taking function
			good := false
			for _, rf := range *call.Referrers() {
				b, ok := rf.(*ssa.BinOp)
				if !ok {
					continue
				}
				for _, e := range condEdges(b, b.Op.String() == "!=") {
					tgt := e.From.Succs[e.Succ]
					if _, ok := tgt.Instrs[len(tgt.Instrs)-1].(*ssa.Return); ok {
						more := false
						for _, in := range tgt.Instrs {
							if cc, ok := in.(*ssa.Call); ok {
								if g := staticCallee(cc); g != nil && takesContext(g) {
									more = true
								}
							}
						}
						if !more {
							good = true
						}
					}
				}
			}
			for _, e := range nilCheckEdges(call, false) {
				tgt := e.From.Succs[e.Succ]
				for _, b := range append([]*ssa.BasicBlock{tgt}, reachableWithin(tgt, func(x *ssa.BasicBlock) bool { return tgt.Dominates(x) })...) {
					if ret, ok := b.Instrs[len(b.Instrs)-1].(*ssa.Return); ok {
						for _, res := range ret.Results {
							if isErrorType(res.Type()) && errDependsOn(res, call, 0, map[ssa.Value]bool{}) {
								good = true
							}
						}
					}
				}
			}
			if len(nilCheckEdges(call, false)) == 0 {
				// returned directly: `return c.Err()`
				for _, rf := range *call.Referrers() {
					if _, ok := rf.(*ssa.Return); ok {
						good = true
					}
				}
			}
			if good {
				r.OK("C10.R2", fid, construct, p.Pos(call.Pos()), "the cancellation error is returned", true)
			} else {
				r.Bad("C10.R2", fid, construct, p.Pos(call.Pos()), "the result of c.Err() is tested but not returned: the read would carry on (or fail with another error) after cancellation")
			}
		})
		// ---- R3: polling in loops
		if prm == nil {
			continue
		}
		polled := map[ssa.Instruction]bool{}
		eachInstr(fn, func(_ *ssa.BasicBlock, _ int, i ssa.Instruction) {
			call, ok := i.(*ssa.Call)
			if !ok {
				return
			}
			if call.Call.IsInvoke() && call.Call.Method.Name() == "Err" && isContextType(call.Call.Value) {
				polled[i] = true
			}
		})
		ff := NewFactFlow(fn, func(i ssa.Instruction) []string {
			if polled[i] {
				return []string{"polled"}
			}
			return nil
		}, nil, func(i ssa.Instruction) []string {
			b := i.Block()
			if len(b.Instrs) > 0 && b.Instrs[0] == i {
				for _, pr := range b.Preds {
					if b.Dominates(pr) {
						return []string{"polled"}
					}
				}
			}
			return nil
		}, nil)
		k = 0
		eachInstr(fn, func(b *ssa.BasicBlock, _ int, i ssa.Instruction) {
			call, ok := i.(*ssa.Call)
			if !ok || !inLexicalLoop(b) || !reachableBlocks(b)[b] {
				return
			}
			g := staticCallee(call)
			if g == nil || !isSubject(g) || !takesContext(g) {
				return
			}
			k++
			construct := fmt.Sprintf("loop-call %s#%d", FuncID(g), k)
			switch {
			case ff.Holds(call, "polled"):
				r.OK("C10.R3", fid, construct, p.Pos(call.Pos()), "c.Err() is polled in the same loop iteration before this call", true)
			case pollsFirst(g):
				r.OK("C10.R3", fid, construct, p.Pos(call.Pos()), "the callee polls its context before doing any work", true)
			default:
				r.Bad("C10.R3", fid, construct, p.Pos(call.Pos()), "this loop keeps calling "+FuncID(g)+" without polling c.Err() in the iteration (and the callee does not poll first): after cancellation the loop runs to the end of its input")
			}
		})
	}
}

// formatVerbs returns the verb letter of each argument-consuming directive in a format string.
func formatVerbs(f string) []byte {
	var out []byte
	for i := 0; i < len(f); i++ {
		if f[i] != '%' {
			continue
		}
		i++
		for i < len(f) && strings.ContainsRune("+-# 0123456789.[]*", rune(f[i])) {
			i++
		}
		if i < len(f) && f[i] != '%' {
			out = append(out, f[i])
		}
	}
	return out
}

// orderedVariadic returns the variadic elements of a call in index order.
func orderedVariadic(call *ssa.Call) []ssa.Value {
	args := call.Call.Args
	if len(args) == 0 {
		return nil
	}
	sl, ok := args[len(args)-1].(*ssa.Slice)
	if !ok {
		return nil
	}
	al, ok := sl.X.(*ssa.Alloc)
	if !ok {
		return nil
	}
	m := map[int64]ssa.Value{}
	var max int64 = -1
	for _, rf := range *al.Referrers() {
		ia, ok := rf.(*ssa.IndexAddr)
		if !ok {
			continue
		}
		n, ok := constInt(ia.Index)
		if !ok {
			continue
		}
		for _, rr := range *ia.Referrers() {
			if st, ok := rr.(*ssa.Store); ok && st.Addr == ia {
				m[n] = st.Val
				if n > max {
					max = n
				}
			}
		}
	}
	out := make([]ssa.Value, max+1)
	for k, v := range m {
		out[k] = v
	}
	return out
}

// errFromContextCallee: error value v can be the error result of a context-taking call (or of c.Err()).
func errFromContextCallee(v ssa.Value, prm *ssa.Parameter, depth int, seen map[ssa.Value]bool) bool {
	if v == nil || depth > 8 || seen[v] {
		return false
	}
	seen[v] = true
	switch x := v.(type) {
	case *ssa.Extract:
		return errFromContextCallee(x.Tuple, prm, depth+1, seen)
	case *ssa.Call:
		if x.Call.IsInvoke() {
			return x.Call.Method.Name() == "Err" && isContextType(x.Call.Value)
		}
		for _, a := range x.Call.Args {
			if isContextType(a) {
				return true
			}
		}
		return false
	case *ssa.Phi:
		for _, e := range x.Edges {
			if errFromContextCallee(e, prm, depth+1, seen) {
				return true
			}
		}
	case *ssa.UnOp:
		if tv := throughCell(x); tv != ssa.Value(x) {
			return errFromContextCallee(tv, prm, depth+1, seen)
		}
		if al, ok := x.X.(*ssa.Alloc); ok {
			for _, rf := range *al.Referrers() {
				if st, ok := rf.(*ssa.Store); ok && st.Addr == ssa.Value(al) && errFromContextCallee(st.Val, prm, depth+1, seen) {
					return true
				}
			}
		}
	case *ssa.ChangeInterface:
		return errFromContextCallee(x.X, prm, depth+1, seen)
	case *ssa.MakeInterface:
		return errFromContextCallee(x.X, prm, depth+1, seen)
	}
	return false
}

// ---------------- C10.R2b (round 2 of seeding): the error of a context-taking callee is not replaced ----------------
//
// On the edge where the error result e of a context-taking callee is non-nil, every return reached before the context is
// observed again (another context-taking call, or c.Err()) must return an error that depends on e (e itself, %w, errors.Join):
// returning some other error there turns a cancellation into "corrupt ..." and errors.Is(err, ctx.Err()) fails.
func checkCalleeErrorKept(c *Ctx, fn *ssa.Function) {
	p, r := c.P, c.R
	fid := FuncID(fn)
	k := 0
	eachInstr(fn, func(_ *ssa.BasicBlock, _ int, i ssa.Instruction) {
		call, ok := i.(*ssa.Call)
		if !ok {
			return
		}
		g := staticCallee(call)
		if g == nil || !takesContext(g) || !isSubject(g) {
			return
		}
		for _, e := range errorResults(call) {
			edges := nilCheckEdges(e, false)
			if len(edges) == 0 {
				continue
			}
			k++
			construct := fmt.Sprintf("%s#%d error kept", g.Name(), k)
			var bad []string
			for _, ed := range edges {
				start := ed.From.Succs[ed.Succ]
				// explore forward from the non-nil edge; stop at blocks that observe the context again
				seen := map[*ssa.BasicBlock]bool{}
				stack := []*ssa.BasicBlock{start}
				for len(stack) > 0 {
					b := stack[len(stack)-1]
					stack = stack[:len(stack)-1]
					// stay on the error path: blocks dominated by the error edge, plus the edge's immediate successor (the
					// usual `if err != nil || other { return … }` shares that block with the other condition)
					if seen[b] || (b != start && !edgeDominates(ed, b)) {
						continue
					}
					seen[b] = true
					reobserved := false
					for _, in := range b.Instrs {
						if cc, ok := in.(*ssa.Call); ok {
							if h := staticCallee(cc); h != nil && takesContext(h) {
								reobserved = true
							}
							if cc.Call.IsInvoke() && cc.Call.Method.Name() == "Err" && isContextType(cc.Call.Value) {
								reobserved = true
							}
						}
					}
					if reobserved {
						continue
					}
					if ret, ok := b.Instrs[len(b.Instrs)-1].(*ssa.Return); ok {
						depends := false
						for _, rv := range ret.Results {
							if isErrorType(rv.Type()) && errDependsOn(rv, e, 0, map[ssa.Value]bool{}) {
								depends = true
							}
						}
						if kind, has := returnErrKind(ret); has && kind == errNil {
							depends = true // error deliberately absorbed (repair path returns success): not a cancellation being renamed
						}
						if !depends {
							bad = append(bad, p.Pos(ret.Pos()))
						}
						continue
					}
					stack = append(stack, b.Succs...)
				}
			}
			if len(bad) == 0 {
				r.OK("C10.R2", fid, construct, p.Pos(call.Pos()), "every return on the error edge (before the context is observed again) returns an error that wraps the callee's", true)
			} else {
				r.Bad("C10.R2", fid, construct, p.Pos(call.Pos()), "when this context-taking callee fails, the return at "+strings.Join(dedupStrings(bad), ", ")+" reports a different error and drops the callee's: a cancellation is reported as some other failure and errors.Is(err, ctx.Err()) is false")
			}
		}
	})
}

func init() {
	extraDebug["c10loops"] = func(p *Program) {
		for _, fn := range p.Funcs {
			if !isSubject(fn) || !takesContext(fn) {
				continue
			}
			for _, l := range naturalLoops(fn) {
				polls, ctxCall, calls := false, false, 0
				for b := range l.blocks {
					for _, in := range b.Instrs {
						call, ok := in.(*ssa.Call)
						if !ok {
							continue
						}
						if call.Call.IsInvoke() && call.Call.Method.Name() == "Err" && isContextType(call.Call.Value) {
							polls = true
							continue
						}
						if _, isB := call.Call.Value.(*ssa.Builtin); isB {
							continue
						}
						calls++
						if g := staticCallee(call); g != nil && takesContext(g) {
							ctxCall = true
						}
					}
				}
				fmt.Printf("%-70s %s polls=%v ctxcall=%v calls=%d\n", FuncID(fn), p.Pos(lastPos(l.header)), polls, ctxCall, calls)
			}
		}
	}
}

// ---------------- C10.R3b (round 3 of seeding): every working loop of a context-taking reader polls ----------------

// c10LoopTriage: loops in context-taking functions that neither poll nor hand the context on, with the reason.
// Keyed by function and the callees inside the loop (not by line).
var c10LoopTriage = map[string]string{
	"pkg/pdfcpu.buffer|keywordStreamRightAfterEndOfDict,lastStreamMarker": "walks the stream keywords of the object buffer that the enclosing (polling) loop just grew: linear in that buffer since each step looks only at what precedes the keyword (repaired, b8fff5e6)",
}

func checkWorkingLoopsPoll(c *Ctx) {
	p, r := c.P, c.R
	n := 0
	for _, fn := range p.Funcs {
		if !isSubject(fn) || !takesContext(fn) || fn.Pkg == nil {
			continue
		}
		pp := fn.Pkg.Pkg.Path()
		if pp != modPath+"/pkg/pdfcpu" && pp != modPath+"/pkg/pdfcpu/model" {
			continue
		}
		fid := FuncID(fn)
		k := 0
		for _, l := range naturalLoops(fn) {
			gates := map[*ssa.BasicBlock]bool{}
			var callees []string
			for b := range l.blocks {
				for _, in := range b.Instrs {
					call, ok := in.(*ssa.Call)
					if !ok {
						continue
					}
					if call.Call.IsInvoke() && call.Call.Method.Name() == "Err" && isContextType(call.Call.Value) {
						gates[b] = true
						continue
					}
					if _, isB := call.Call.Value.(*ssa.Builtin); isB {
						continue
					}
					g := staticCallee(call)
					if g != nil && takesContext(g) {
						gates[b] = true
						continue
					}
					if g != nil {
						callees = append(callees, g.Name())
					} else {
						callees = append(callees, "dynamic call")
					}
				}
			}
			callees = dedupStrings(callees)
			sort.Strings(callees)
			if len(callees) == 0 && len(gates) == 0 {
				continue // no call at all: a plain in-memory loop
			}
			k++
			n++
			construct := fmt.Sprintf("loop{%s}", strings.Join(callees, ","))
			pos := p.Pos(lastPos(l.header))
			// is there a way round the loop that does work (a non-context call) and passes no gate?
			work := map[*ssa.BasicBlock]bool{}
			for b := range l.blocks {
				if gates[b] {
					continue
				}
				for _, in := range b.Instrs {
					if call, ok := in.(*ssa.Call); ok {
						if _, isB := call.Call.Value.(*ssa.Builtin); !isB {
							work[b] = true
						}
					}
				}
			}
			gateFree := func(from []*ssa.BasicBlock, fwd bool) map[*ssa.BasicBlock]bool {
				seen := map[*ssa.BasicBlock]bool{}
				stack := append([]*ssa.BasicBlock{}, from...)
				for len(stack) > 0 {
					b := stack[len(stack)-1]
					stack = stack[:len(stack)-1]
					if seen[b] || gates[b] || !l.blocks[b] {
						continue
					}
					seen[b] = true
					if fwd {
						for _, s := range b.Succs {
							if s != l.header {
								stack = append(stack, s)
							}
						}
					} else {
						if b != l.header {
							stack = append(stack, b.Preds...)
						}
					}
				}
				return seen
			}
			skips := false
			if !gates[l.header] {
				fromHeader := gateFree([]*ssa.BasicBlock{l.header}, true)
				toHeader := gateFree(l.backs, false)
				for b := range work {
					if fromHeader[b] && toHeader[b] {
						skips = true
					}
				}
			}
			switch {
			case !skips:
				r.OK("C10.R3", fid, construct, pos, "every way round this loop polls c.Err() or calls a function that takes the context", true)
			case c10LoopTriage[fid+"|"+strings.Join(callees, ",")] != "":
				r.OK("C10.R3", fid, construct, pos, "triaged: "+c10LoopTriage[fid+"|"+strings.Join(callees, ",")], true)
			default:
				r.Bad("C10.R3", fid, construct, pos, "a loop of a context-taking reader does work ("+strings.Join(callees, ", ")+") and can go round without polling c.Err() or handing the context to a callee: after cancellation it runs to the end of its input")
			}
		}
	}
	if n < 8 {
		r.Bad("C10.R3", "pkg/pdfcpu", "working loops", "", fmt.Sprintf("UNRESOLVED-ANCHOR: only %d working loops found in context-taking readers (13 on the pinned tree)", n))
	}
}
