package main

import (
	"go/token"
	"strings"

	"golang.org/x/tools/go/ssa"
)

// holdsAny: on every path to pt at least one of the atoms was established (disjunctive must-fact).
func (s *c04State) holdsAny(fn *ssa.Function, pt point, atoms []string) bool {
	s.flow(fn)
	base := s.genE[fn]
	want := map[string]bool{}
	for _, a := range atoms {
		want[a] = true
	}
	genE := map[Edge][]string{}
	for e, fs := range base {
		for _, f := range fs {
			if want[f] {
				genE[e] = []string{"Q"}
			}
		}
	}
	ff := NewFactFlow(fn, nil, genE, nil, nil)
	if pt.edge != nil {
		in, ok := ff.in[pt.edge.From]
		if !ok {
			return true
		}
		if in["Q"] {
			return true
		}
		return len(genE[*pt.edge]) > 0
	}
	return ff.Holds(pt.at, "Q")
}

// residual dispatches to the structural rule that vouches for an idiom the value analysis cannot link.
func (s *c04State) residual(fn *ssa.Function, r c04Residual) string {
	id := FuncID(fn)
	if w, ok := s.resid[id]; ok {
		return w
	}
	var w string
	switch id {
	case "cmd/pdfcpu.mergeCommandVariation":
		w = s.residualMerge(fn)
	case "cmd/pdfcpu.annotationRemovalArgs":
		w = s.residualAnnotationRemoval(fn)
	default:
		w = "no residual rule for " + id
	}
	if s.resid == nil {
		s.resid = map[string]string{}
	}
	s.resid[id] = w
	return w
}

func paramByName(fn *ssa.Function, name string) *ssa.Parameter {
	for _, p := range fn.Params {
		if p.Name() == name {
			return p
		}
	}
	return nil
}

// sameFieldLoad: a and b load the same field of the same base, and every store to that field in the
// function happens in a block that strictly dominates both loads' blocks (so both observe the same value).
func sameFieldLoad(a, b ssa.Value) bool {
	la, ok1 := a.(*ssa.UnOp)
	lb, ok2 := b.(*ssa.UnOp)
	if !ok1 || !ok2 || la.Op != token.MUL || lb.Op != token.MUL {
		return false
	}
	fa, ok1 := la.X.(*ssa.FieldAddr)
	fb, ok2 := lb.X.(*ssa.FieldAddr)
	if !ok1 || !ok2 || fa.X != fb.X || fa.Field != fb.Field {
		return false
	}
	ok := true
	eachInstr(la.Parent(), func(blk *ssa.BasicBlock, _ int, i ssa.Instruction) {
		st, isSt := i.(*ssa.Store)
		if !isSt {
			return
		}
		sa, isFA := st.Addr.(*ssa.FieldAddr)
		if !isFA || sa.X != fa.X || sa.Field != fa.Field {
			return
		}
		if !(blk.Dominates(la.Block()) && blk.Dominates(lb.Block()) && blk != la.Block() && blk != lb.Block()) {
			ok = false
		}
	})
	return ok
}

// residualMerge: M1 validateMergeFiles(mode,outFile,…) success dominates mergeCommandVariation(…,outFile,…,mode)
// with the same values; M2 validateMergeFiles checks outFile unless mode == "append"; M3 the non-exempt
// constructors are called only where mode == a constant other than "append".
func (s *c04State) residualMerge(fn *ssa.Function) string {
	p := s.c.P
	outP, modeP := paramByName(fn, "outFile"), paramByName(fn, "mergeMode")
	if outP == nil || modeP == nil {
		return "residual merge rule: parameters outFile/mergeMode of mergeCommandVariation not found"
	}
	outIdx, modeIdx := -1, -1
	for i, pr := range fn.Params {
		if pr == outP {
			outIdx = i
		}
		if pr == modeP {
			modeIdx = i
		}
	}
	// M3
	edges := map[Edge]bool{}
	eachInstr(fn, func(_ *ssa.BasicBlock, _ int, i ssa.Instruction) {
		b, ok := i.(*ssa.BinOp)
		if !ok || b.Op != token.EQL {
			return
		}
		var cst string
		var okc bool
		if b.X == ssa.Value(modeP) {
			cst, okc = constString(b.Y)
		} else if b.Y == ssa.Value(modeP) {
			cst, okc = constString(b.X)
		}
		if okc && cst != "append" {
			for _, e := range condEdges(b, true) {
				edges[e] = true
			}
		}
	})
	ff := NewFactFlow(fn, nil, edgesToGen(edges, "nonappend"), nil, nil)
	bad := ""
	eachInstr(fn, func(_ *ssa.BasicBlock, _ int, i ssa.Instruction) {
		cc, ok := i.(ssa.CallInstruction)
		if !ok {
			return
		}
		callee := staticCallee(cc)
		if callee == nil || !strings.HasPrefix(FuncID(callee), "pkg/cli.") {
			return
		}
		if _, exempt := c04Exempt[FuncID(callee)]; exempt {
			return
		}
		uses := false
		for _, a := range cc.Common().Args {
			if a == ssa.Value(outP) {
				uses = true
			}
		}
		if uses && !ff.Holds(i, "nonappend") {
			bad = "M3: " + FuncID(callee) + " is called with outFile where the merge mode is not known to differ from \"append\" (" + p.Pos(i.Pos()) + ")"
		}
	})
	if bad != "" {
		return bad
	}
	// M2
	vf := p.Func("cmd/pdfcpu.validateMergeFiles")
	if vf == nil {
		return "M2: validateMergeFiles not found"
	}
	vMode, vOut := paramByName(vf, "mode"), paramByName(vf, "outFile")
	if vMode == nil || vOut == nil {
		return "M2: parameters mode/outFile of validateMergeFiles not found"
	}
	vEdges := map[Edge]bool{}
	var ensureCalls []*ssa.Call
	eachInstr(vf, func(_ *ssa.BasicBlock, _ int, i ssa.Instruction) {
		switch x := i.(type) {
		case *ssa.BinOp:
			if x.Op != token.EQL && x.Op != token.NEQ {
				return
			}
			var cst string
			var okc bool
			if x.X == ssa.Value(vMode) {
				cst, okc = constString(x.Y)
			} else if x.Y == ssa.Value(vMode) {
				cst, okc = constString(x.X)
			}
			if okc && cst == "append" {
				for _, e := range condEdges(x, x.Op == token.EQL) {
					vEdges[e] = true
				}
			}
		case *ssa.Call:
			if _, ref := callRef(x); ref == cmdPkg+"ensureOutputFileAvailable" && x.Call.Args[0] == ssa.Value(vOut) {
				ensureCalls = append(ensureCalls, x)
				if es, has := successEdges(x); has {
					for _, e := range es {
						vEdges[e] = true
					}
				}
			}
		}
	})
	vff := NewFactFlow(vf, nil, edgesToGen(vEdges, "D"), nil, nil)
	for _, ret := range returnsOf(vf) {
		if k, _ := returnErrKind(ret); k == errNonNil {
			continue
		}
		if vff.Holds(ret, "D") {
			continue
		}
		tail := false
		for _, ec := range ensureCalls {
			if ret.Results[0] == ssa.Value(ec) {
				tail = true
			}
		}
		if !tail {
			return "M2: validateMergeFiles can return nil without ensureOutputFileAvailable(outFile) although mode != \"append\""
		}
	}
	// M1
	sites := 0
	for _, caller := range s.c.CG().In[fn] {
		var calls []ssa.CallInstruction
		eachInstr(caller, func(_ *ssa.BasicBlock, _ int, i ssa.Instruction) {
			if cc, ok := i.(ssa.CallInstruction); ok && staticCallee(cc) == fn {
				calls = append(calls, cc)
			}
		})
		for _, cc := range calls {
			sites++
			args := cc.Common().Args
			gate := map[Edge]bool{}
			eachInstr(caller, func(_ *ssa.BasicBlock, _ int, i ssa.Instruction) {
				vc, ok := i.(*ssa.Call)
				if !ok || staticCallee(vc) != vf {
					return
				}
				va := vc.Call.Args
				sameOut := va[1] == args[outIdx]
				sameMode := va[0] == args[modeIdx] || sameFieldLoad(va[0], args[modeIdx])
				if sameOut && sameMode {
					if es, has := successEdges(vc); has {
						for _, e := range es {
							gate[e] = true
						}
					}
				}
			})
			cf := NewFactFlow(caller, nil, edgesToGen(gate, "validated"), nil, nil)
			if !cf.Holds(cc.(ssa.Instruction), "validated") {
				return "M1: " + FuncID(caller) + " reaches mergeCommandVariation without a successful validateMergeFiles on the same outFile and mode values (" + p.Pos(cc.Pos()) + ")"
			}
		}
	}
	if sites == 0 {
		return "M1: mergeCommandVariation has no static caller"
	}
	return ""
}

func edgesToGen(edges map[Edge]bool, fact string) map[Edge][]string {
	out := map[Edge][]string{}
	for e := range edges {
		out[e] = []string{fact}
	}
	return out
}

// residualAnnotationRemoval: in every loop iteration over args, one of {i != 1, !hasPDFExtension(arg),
// ensureOutputFileAvailable(arg) succeeded} holds before the iteration ends; annotationOutFile returns
// only args[1] (under hasPDFExtension(args[1]) or args[1] == "-") or "".
func (s *c04State) residualAnnotationRemoval(fn *ssa.Function) string {
	p := s.c.P
	args := paramByName(fn, "args")
	if args == nil {
		return "residual annotation rule: parameter args not found"
	}
	isElem := func(v ssa.Value) (idx ssa.Value, ok bool) {
		ld, ok := v.(*ssa.UnOp)
		if !ok || ld.Op != token.MUL {
			return nil, false
		}
		ia, ok := ld.X.(*ssa.IndexAddr)
		if !ok || ia.X != ssa.Value(args) {
			return nil, false
		}
		return ia.Index, true
	}
	edges := map[Edge]bool{}
	var loopIdx ssa.Value
	var ensure *ssa.Call
	eachInstr(fn, func(_ *ssa.BasicBlock, _ int, i ssa.Instruction) {
		if c, ok := i.(*ssa.Call); ok {
			if _, ref := callRef(c); ref == cmdPkg+"ensureOutputFileAvailable" {
				if idx, ok := isElem(c.Call.Args[0]); ok {
					ensure = c
					loopIdx = idx
				}
			}
		}
	})
	if ensure == nil {
		return "annotationRemovalArgs no longer calls ensureOutputFileAvailable on an element of args"
	}
	if es, has := successEdges(ensure); has {
		for _, e := range es {
			edges[e] = true
		}
	}
	eachInstr(fn, func(_ *ssa.BasicBlock, _ int, i ssa.Instruction) {
		switch x := i.(type) {
		case *ssa.BinOp:
			if (x.Op == token.EQL || x.Op == token.NEQ) && x.X == loopIdx {
				if n, ok := constInt(x.Y); ok && n == 1 {
					for _, e := range condEdges(x, x.Op != token.EQL) { // edge on which i != 1
						edges[e] = true
					}
				} else if ok { // i == c with c != 1 implies i != 1
					for _, e := range condEdges(x, x.Op == token.EQL) {
						edges[e] = true
					}
				}
			}
		case *ssa.Call:
			if _, ref := callRef(x); ref == cmdPkg+"hasPDFExtension" {
				if idx, ok := isElem(x.Call.Args[0]); ok && idx == loopIdx {
					for _, e := range condEdges(x, false) {
						edges[e] = true
					}
				}
			}
		}
	})
	// loop header: block defining loopIdx (phi)
	var idxDef ssa.Instruction
	switch x := loopIdx.(type) {
	case *ssa.Phi:
		idxDef = x
	case *ssa.BinOp: // go/ssa range loops: t4 = phi + 1
		if ph, ok := x.X.(*ssa.Phi); ok && x.Op == token.ADD {
			idxDef = x
			_ = ph
		}
	}
	if idxDef == nil {
		return "loop index of annotationRemovalArgs is not a range index (unrecognised idiom)"
	}
	header := idxDef.Block()
	kill := func(i ssa.Instruction) []string {
		if i == idxDef {
			return []string{"D"}
		}
		return nil
	}
	ff := NewFactFlow(fn, nil, edgesToGen(edges, "D"), kill, nil)
	for _, pred := range header.Preds {
		if !header.Dominates(pred) {
			continue // loop entry
		}
		// facts at the end of the back-edge block (+ edge gen)
		last := pred.Instrs[len(pred.Instrs)-1]
		facts, un := ff.At(last)
		if un {
			continue
		}
		okD := facts["D"]
		for si, sc := range pred.Succs {
			if sc == header && edges[Edge{pred, si}] {
				okD = true
			}
		}
		if !okD {
			return "an iteration of the args loop in annotationRemovalArgs can end with i == 1 and a .pdf argument that was not passed to ensureOutputFileAvailable (" + p.Pos(last.Pos()) + ")"
		}
	}
	// the ensure failure leaves the function
	for _, e := range errorResults(ensure) {
		for _, ed := range nilCheckEdges(e, false) {
			sblk := ed.From.Succs[ed.Succ]
			if _, isRet := sblk.Instrs[len(sblk.Instrs)-1].(*ssa.Return); !isRet {
				return "failure of ensureOutputFileAvailable in annotationRemovalArgs does not return"
			}
		}
	}
	// annotationOutFile
	of := p.Func("cmd/pdfcpu.annotationOutFile")
	if of == nil {
		return "annotationOutFile not found"
	}
	oargs := of.Params[0]
	for _, ret := range returnsOf(of) {
		v := ret.Results[0]
		if c, ok := constString(v); ok && c == "" {
			continue
		}
		ld, ok := v.(*ssa.UnOp)
		if !ok {
			return "annotationOutFile returns something other than args[1] or \"\""
		}
		ia, ok := ld.X.(*ssa.IndexAddr)
		n, isC := constInt(ia.Index)
		if !ok || ia.X != ssa.Value(oargs) || !isC || n != 1 {
			return "annotationOutFile returns something other than args[1] or \"\""
		}
	}
	// the value returned by annotationRemovalArgs as result 1 must be annotationOutFile(args)
	for _, ret := range returnsOf(fn) {
		if k, _ := returnErrKind(ret); k == errNonNil {
			continue
		}
		c, ok := ret.Results[1].(*ssa.Call)
		if !ok || staticCallee(c) != of || c.Call.Args[0] != ssa.Value(args) {
			return "annotationRemovalArgs returns an outFile that is not annotationOutFile(args)"
		}
	}
	return ""
}
