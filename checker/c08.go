package main

import (
	"fmt"
	"go/token"
	"go/types"
	"sort"
	"strings"

	"golang.org/x/tools/go/ssa"
)

// C08 — malformed input never crashes, overflows the stack or hangs (partial: recursion and chain-loop guards).

// c08BaseGuards: functions whose nil error result means "the recursion is still inside its bound / the object was not visited before".
// Confirmed by reading; rule C08.R0 checks that each still exists and still contains the comparison or map test it is trusted for.
var c08BaseGuards = map[string]string{
	"pkg/pdfcpu/model.CheckRecursionDepth":           "depth",
	"pkg/pdfcpu/model.XRefTable.CheckRecursionDepth": "depth",
	"pkg/pdfcpu/model.PageTreeVisit.Enter":           "visited",
	"pkg/pdfcpu/model.FormFieldVisit.Enter":          "visited",
	"pkg/pdfcpu/model.StructureTreeVisit.Enter":      "visited",
	"pkg/pdfcpu/validate.enterNestedValidation":      "depth",
}

// c08TestCalls / c08SetCalls: bool-returning "already processed?" accessors and the calls that mark an object processed,
// grouped by the state they share (the Valid / BeingValidated flags of an xref table entry ...).
var c08TestCalls = map[string]string{
	"pkg/pdfcpu/model.XRefTable.IsValid":             "xref entry valid flags",
	"pkg/pdfcpu/model.XRefTable.IsObjValid":          "xref entry valid flags",
	"pkg/pdfcpu/model.XRefTable.IsBeingValidated":    "xref entry valid flags",
	"pkg/pdfcpu/model.XRefTable.IsObjBeingValidated": "xref entry valid flags",
}
var c08SetCalls = map[string]string{
	"pkg/pdfcpu/model.XRefTable.SetValid":          "xref entry valid flags",
	"pkg/pdfcpu/model.XRefTable.SetBeingValidated": "xref entry valid flags",
}

// c08TestAndSetCalls: calls that test and set a visited mark in one step; their bool result is true when the object had been
// visited before (DereferenceStreamDict marks the xref entry valid and reports whether it already was).
var c08TestAndSetCalls = map[string]string{
	"pkg/pdfcpu/model.XRefTable.DereferenceStreamDict": "xref entry valid flag (test-and-set)",
	"pkg/pdfcpu.formResourcesVisited":                  "Optimize.FormResourceCache per page (test-and-set)",
}

// c08SliceTests: membership tests on a visited slice (argument index of the slice); the matching set is append(slice, ...).
var c08SliceTests = map[string]int{
	"pkg/pdfcpu.visited": 1,
}

// guardSet: the guard functions of the program = base guards + every error-returning function all of whose
// possibly-nil-error returns are reached only after passing a guard (checkBookmarkCycle, outlineItemDict, enterNestedValidation ...).
type guardSet struct {
	p     *Program
	funcs map[string]string // ref -> kind/detail
	// ptrFuncs: functions whose first result is a pointer that is non-nil only after a guard was passed (nil = "seen before")
	ptrFuncs map[string]string
	// depthIdx: for depth guards, the index (in Call.Args, receiver included) of the argument that carries the depth
	depthIdx map[string]int
	memo     map[*ssa.Function]*guardFacts
}

// depthArgParam: the parameter of the calling function that a depth guard call decides on (looking through `p + c`).
func (gs *guardSet) depthArgParam(call *ssa.Call) *ssa.Parameter {
	_, ref := callRef(call)
	idx, ok := gs.depthIdx[ref]
	if !ok || idx >= len(call.Call.Args) {
		return nil
	}
	a := call.Call.Args[idx]
	if add, ok := a.(*ssa.BinOp); ok && add.Op == token.ADD {
		if _, isC := add.Y.(*ssa.Const); isC {
			a = add.X
		}
	}
	prm, _ := a.(*ssa.Parameter)
	return prm
}

func ptrResults(call ssa.Value) []ssa.Value {
	var out []ssa.Value
	if tup, ok := call.Type().(*types.Tuple); ok {
		for _, r := range *call.Referrers() {
			if ex, ok := r.(*ssa.Extract); ok && ex.Index == 0 {
				if _, isPtr := tup.At(0).Type().Underlying().(*types.Pointer); isPtr {
					out = append(out, ex)
				}
			}
		}
	}
	return out
}

// paramRooted: v is computed from a parameter (or captured variable) of its function: fields, loads, arithmetic, conversions and
// method calls on such values. Constants and locally created containers are not.
func paramRooted(v ssa.Value, d int) bool {
	if d > 8 {
		return false
	}
	switch x := v.(type) {
	case *ssa.Parameter, *ssa.FreeVar:
		return true
	case *ssa.Const, *ssa.MakeMap, *ssa.Alloc:
		if al, ok := x.(*ssa.Alloc); ok && singleAssignedCell(al) {
			for _, r := range *al.Referrers() {
				if st, ok := r.(*ssa.Store); ok && st.Addr == ssa.Value(al) {
					return paramRooted(st.Val, d+1)
				}
			}
		}
		return false
	case *ssa.UnOp:
		return paramRooted(x.X, d+1)
	case *ssa.FieldAddr:
		return paramRooted(x.X, d+1)
	case *ssa.Field:
		return paramRooted(x.X, d+1)
	case *ssa.ChangeType:
		return paramRooted(x.X, d+1)
	case *ssa.Convert:
		return paramRooted(x.X, d+1)
	case *ssa.BinOp:
		return paramRooted(x.X, d+1) || paramRooted(x.Y, d+1)
	case *ssa.Call:
		if x.Call.IsInvoke() {
			return paramRooted(x.Call.Value, d+1)
		}
		if f := staticCallee(x); f != nil && f.Signature.Recv() != nil && len(x.Call.Args) >= 1 {
			return paramRooted(x.Call.Args[0], d+1) // accessor such as ir.ObjectNumber.Value(), d.Entry(...)
		}
	case *ssa.Extract:
		return paramRooted(x.Tuple, d+1)
	case *ssa.Lookup:
		return paramRooted(x.X, d+1)
	case *ssa.Index:
		return paramRooted(x.X, d+1)
	case *ssa.IndexAddr:
		return paramRooted(x.X, d+1)
	case *ssa.TypeAssert:
		return paramRooted(x.X, d+1)
	case *ssa.Phi:
		for _, e := range x.Edges {
			if paramRooted(e, d+3) {
				return true
			}
		}
	}
	return false
}

// subjectArgsRooted: the arguments a guard decides on (ints, maps, visit states incl. the receiver) all come from the caller.
func subjectArgsRooted(call *ssa.Call, allowState bool) bool {
	ints, intsRooted, others := 0, 0, 0
	for _, a := range call.Call.Args {
		switch tt := a.Type().Underlying().(type) {
		case *types.Basic:
			if tt.Info()&types.IsInteger != 0 {
				ints++
				if paramRooted(a, 0) {
					intsRooted++
				}
			}
		case *types.Map:
			others++
			if !paramRooted(a, 0) {
				return false
			}
		case *types.Pointer:
			if strings.HasSuffix(tt.Elem().String(), "Visit") {
				others++
				if !paramRooted(a, 0) {
					return false
				}
			}
		}
	}
	if ints > 0 && intsRooted == 0 {
		return false
	}
	if ints+others == 0 {
		if !allowState {
			return false
		}
		// state carried inside a struct handed in by the caller (enterNestedValidation(xRefTable, ...))
		for _, a := range call.Call.Args {
			if _, ok := a.Type().Underlying().(*types.Pointer); ok && paramRooted(a, 0) {
				return true
			}
		}
		return false
	}
	return true
}

type guardFacts struct {
	fn    *ssa.Function
	genE  map[Edge][]string
	genI  map[ssa.Instruction][]string
	killI map[ssa.Instruction][]string
	all   []string
	desc  []string
	tails map[*ssa.Call]bool // guard calls (their error result returned directly is a guarded return)
}

func accessPath(v ssa.Value) string {
	switch x := v.(type) {
	case *ssa.Parameter:
		return x.Name()
	case *ssa.FreeVar:
		return "^" + x.Name()
	case *ssa.UnOp:
		if x.Op == token.MUL {
			if al, ok := x.X.(*ssa.Alloc); ok {
				if singleAssignedCell(al) {
					for _, r := range *al.Referrers() {
						if st, ok := r.(*ssa.Store); ok && st.Addr == ssa.Value(al) {
							return accessPath(st.Val)
						}
					}
				}
				return al.Name()
			}
			return accessPath(x.X)
		}
	case *ssa.FieldAddr:
		if f := structField(x.X.Type(), x.Field); f != nil {
			return accessPath(x.X) + "." + f.Name()
		}
	case *ssa.Field:
		if f := structField(x.X.Type(), x.Field); f != nil {
			return accessPath(x.X) + "." + f.Name()
		}
	case *ssa.ChangeType:
		return accessPath(x.X)
	}
	return v.Name()
}

func newGuardSet(p *Program) *guardSet {
	gs := &guardSet{p: p, funcs: map[string]string{}, ptrFuncs: map[string]string{}, memo: map[*ssa.Function]*guardFacts{}, depthIdx: map[string]int{
		"pkg/pdfcpu/model.CheckRecursionDepth":           1,
		"pkg/pdfcpu/model.XRefTable.CheckRecursionDepth": 2,
	}}
	for k, v := range c08BaseGuards {
		gs.funcs[k] = v + ":" + k
	}
	// candidates: error-returning module functions
	changed := true
	for round := 0; changed && round < 6; round++ {
		changed = false
		gs.memo = map[*ssa.Function]*guardFacts{}
		for _, fn := range p.Funcs {
			if fn.Parent() != nil || len(fn.Blocks) == 0 {
				continue
			}
			o := fn.Object()
			if o == nil {
				continue
			}
			ref := objRef(o)
			if _, ok := gs.funcs[ref]; ok {
				continue
			}
			if _, ok := gs.ptrFuncs[ref]; ok {
				continue
			}
			res := fn.Signature.Results()
			if res.Len() == 0 || !isErrorType(res.At(res.Len()-1).Type()) {
				continue
			}
			gf := gs.facts(fn, nil)
			if len(gf.all) == 0 {
				continue
			}
			ff := gf.flow(nil)
			ok, n := true, 0
			for _, ret := range returnsOf(fn) {
				if k, _ := returnErrKind(ret); k == errNonNil {
					continue
				}
				n++
				if gf.satisfied(ff, ret) || gf.tailGuard(ret) {
					continue
				}
				ok = false
			}
			if ok && n > 0 {
				gs.funcs[ref] = "summary:" + ref + " <- " + strings.Join(gf.desc, ",")
				changed = true
				eachInstr(fn, func(_ *ssa.BasicBlock, _ int, i ssa.Instruction) {
					if call, ok := i.(*ssa.Call); ok {
						if prm := gs.depthArgParam(call); prm != nil {
							if k := paramIndex(fn, prm); k >= 0 {
								gs.depthIdx[ref] = k
							}
						}
					}
				})
				continue
			}
			// pointer-result summary
			if _, isPtr := res.At(0).Type().Underlying().(*types.Pointer); isPtr && res.Len() >= 2 {
				ok, n := true, 0
				for _, ret := range returnsOf(fn) {
					if isNilConst(ret.Results[0]) {
						continue
					}
					if k, _ := returnErrKind(ret); k == errNonNil {
						continue
					}
					n++
					if !gf.satisfied(ff, ret) {
						ok = false
					}
				}
				if ok && n > 0 {
					gs.ptrFuncs[ref] = "summary(non-nil result):" + ref + " <- " + strings.Join(gf.desc, ",")
					changed = true
				}
			}
		}
	}
	gs.memo = map[*ssa.Function]*guardFacts{}
	return gs
}

func (gf *guardFacts) tailGuard(ret *ssa.Return) bool {
	for _, res := range ret.Results {
		if !isErrorType(res.Type()) {
			continue
		}
		v := res
		if ld, ok := v.(*ssa.UnOp); ok && ld.Op == token.MUL {
			if st, _ := reachingStore(ld); st != nil {
				v = st.Val
			}
		}
		if ex, ok := v.(*ssa.Extract); ok {
			v = ex.Tuple
		}
		if call, ok := v.(*ssa.Call); ok && gf.tails[call] {
			return true
		}
	}
	return false
}

func (gf *guardFacts) flow(killAt map[ssa.Instruction]bool) *FactFlow {
	return NewFactFlow(gf.fn, func(i ssa.Instruction) []string { return gf.genI[i] }, gf.genE, func(i ssa.Instruction) []string {
		if killAt[i] {
			return gf.all
		}
		return gf.killI[i]
	}, nil)
}

// satisfied: at instruction i a complete guard has been passed: "g", or a test and a set on the same container.
func (gf *guardFacts) satisfied(ff *FactFlow, i ssa.Instruction) bool {
	facts, unreachable := ff.At(i)
	if unreachable {
		return true
	}
	if facts["g"] {
		return true
	}
	for f := range facts {
		if strings.HasPrefix(f, "t:") && facts["s:"+f[2:]] {
			return true
		}
	}
	return false
}

// facts collects the guard constructs of fn. With scc == nil (summary mode) only guards that decide on values handed in by
// the caller count; with scc set (fn is analysed as a member of that recursion component, or for one of its loops) local
// containers, flags and inline depth comparisons count as well.
func (gs *guardSet) facts(fn *ssa.Function, scc map[*ssa.Function]bool) *guardFacts {
	return gs.factsMode(fn, scc, false)
}

// factsMode: loop mode (the guard only has to hold per iteration of a loop inside fn) also accepts containers created
// locally in fn; recursion and summary modes need the guard state to come from the caller.
func (gs *guardSet) factsMode(fn *ssa.Function, scc map[*ssa.Function]bool, loop bool) *guardFacts {
	summary := scc == nil && !loop
	rooted := !loop
	if !summary && !loop {
		if gf, ok := gs.memo[fn]; ok {
			return gf
		}
	}
	gf := &guardFacts{fn: fn, genE: map[Edge][]string{}, genI: map[ssa.Instruction][]string{}, killI: map[ssa.Instruction][]string{}, tails: map[*ssa.Call]bool{}}
	if !summary && !loop {
		gs.memo[fn] = gf
	}
	allSet := map[string]bool{}
	addE := func(es []Edge, f, d string) {
		if len(es) == 0 {
			return
		}
		for _, e := range es {
			gf.genE[e] = append(gf.genE[e], f)
		}
		allSet[f] = true
		gf.desc = append(gf.desc, d)
	}
	boolEdges := func(v ssa.Value, want bool) []Edge {
		var es []Edge
		for _, al := range wideAliases(v) {
			es = append(es, condEdges(al, want)...)
		}
		return es
	}
	eachInstr(fn, func(_ *ssa.BasicBlock, _ int, i ssa.Instruction) {
		switch x := i.(type) {
		case *ssa.Call:
			_, ref := callRef(x)
			if d, ok := gs.funcs[ref]; ok {
				// a guard whose state lives in a struct (nesting counter) is undone when its caller returns: it bounds the
				// recursion of the function that calls it, but does not make that function a guard for others
				if rooted && !subjectArgsRooted(x, !summary) {
					return
				}
				if es, has := successEdges(x); has {
					addE(es, "g", d)
				}
				gf.tails[x] = true
				allSet["g"] = true
				return
			}
			if fam, ok := c08TestCalls[ref]; ok {
				for _, bv := range boolResults(x) {
					addE(boolEdges(bv, false), "t:"+fam, "visited:"+ref)
				}
				return
			}
			if fam, ok := c08SetCalls[ref]; ok {
				gf.genI[i] = append(gf.genI[i], "s:"+fam)
				allSet["s:"+fam] = true
				return
			}
			if idx, ok := c08SliceTests[ref]; ok && len(x.Call.Args) > idx {
				if summary {
					return
				}
				for _, bv := range boolResults(x) {
					addE(boolEdges(bv, false), "t:slice "+x.Call.Args[idx].Name(), "visited:"+ref)
				}
				return
			}
			if b, ok := x.Call.Value.(*ssa.Builtin); ok && b.Name() == "append" && len(x.Call.Args) > 0 && !summary {
				f := "s:slice " + x.Call.Args[0].Name()
				gf.genI[i] = append(gf.genI[i], f)
				allSet[f] = true
				return
			}
			if d, ok := c08TestAndSetCalls[ref]; ok {
				if summary && !(len(x.Call.Args) > 1 && paramRooted(x.Call.Args[1], 0)) {
					return
				}
				for _, bv := range boolResults(x) {
					addE(boolEdges(bv, false), "g", "visited:"+ref+" "+d)
				}
				return
			}
			if gs.ptrFuncs[ref] != "" {
				// result pointer is non-nil only if the callee passed a guard
				if summary && !(len(x.Call.Args) > 1 && paramRooted(x.Call.Args[1], 0)) {
					return
				}
				for _, pv := range ptrResults(x) {
					addE(nilCheckEdges(pv, false), "g", "visited:"+ref+" (non-nil result)")
				}
				return
			}
			// delete(m, k) undoes a set
			if b, ok := x.Call.Value.(*ssa.Builtin); ok && b.Name() == "delete" && len(x.Call.Args) > 0 {
				gf.killI[i] = append(gf.killI[i], "s:"+accessPath(x.Call.Args[0]))
			}
		case *ssa.BinOp:
			// inline depth bound: intParam > limit where limit is not itself a parameter, and the parameter is handed on
			if summary || (x.Op != token.GTR && x.Op != token.GEQ) {
				return
			}
			prm, ok := x.X.(*ssa.Parameter)
			if !ok || !isIntType(prm.Type()) {
				return
			}
			switch x.Y.(type) {
			case *ssa.Parameter, *ssa.Phi:
				return
			}
			if c, ok := x.Y.(*ssa.Call); ok {
				if b, ok := c.Call.Value.(*ssa.Builtin); ok && (b.Name() == "len" || b.Name() == "cap") {
					return
				}
			}
			if !paramHandedOn(prm, scc) {
				return
			}
			addE(condEdges(x, false), "g", "depth:inline "+prm.Name())
		case *ssa.Lookup:
			if _, isMap := x.X.Type().Underlying().(*types.Map); !isMap {
				return
			}
			var bv ssa.Value
			if x.CommaOk {
				for _, rf := range *x.Referrers() {
					if ex, ok := rf.(*ssa.Extract); ok && ex.Index == 1 {
						bv = ex
					}
				}
			} else if isBoolType(x.Type()) {
				bv = x
			}
			if bv == nil {
				return
			}
			if rooted && !paramRooted(x.X, 0) {
				return
			}
			m := accessPath(x.X)
			addE(boolEdges(bv, false), "t:"+m, "visited:map "+m)
		case *ssa.MapUpdate:
			m := accessPath(x.Map)
			gf.genI[i] = append(gf.genI[i], "s:"+m)
			allSet["s:"+m] = true
		case *ssa.UnOp:
			// flag test: load of a bool struct field
			if summary || x.Op != token.MUL || !isBoolType(x.Type()) {
				return
			}
			if _, ok := x.X.(*ssa.FieldAddr); !ok {
				return
			}
			m := accessPath(x.X)
			addE(boolEdges(x, false), "t:"+m, "visited:flag "+m)
		case *ssa.Store:
			if _, ok := x.Addr.(*ssa.FieldAddr); !ok || !isBoolType(x.Val.Type()) {
				return
			}
			m := accessPath(x.Addr)
			if c, ok := x.Val.(*ssa.Const); ok && c.Value != nil {
				if c.Value.String() == "true" {
					gf.genI[i] = append(gf.genI[i], "s:"+m)
					allSet["s:"+m] = true
				} else {
					gf.killI[i] = append(gf.killI[i], "s:"+m)
				}
			}
		}
	})
	for f := range allSet {
		gf.all = append(gf.all, f)
	}
	sort.Strings(gf.all)
	sort.Strings(gf.desc)
	return gf
}

// paramHandedOn: the int parameter (or parameter+const) is an argument of some call in its function.
func paramHandedOn(prm *ssa.Parameter, scc map[*ssa.Function]bool) bool {
	for _, r := range *prm.Referrers() {
		switch x := r.(type) {
		case ssa.CallInstruction:
			for _, a := range x.Common().Args {
				if a == ssa.Value(prm) {
					if _, isB := x.Common().Value.(*ssa.Builtin); !isB {
						if f := staticCallee(x); f != nil && scc[unwrapSynthetic(f)] {
							return true
						}
					}
				}
			}
		case *ssa.BinOp:
			if x.Op == token.ADD {
				if _, ok := x.Y.(*ssa.Const); ok {
					for _, r2 := range *x.Referrers() {
						if c, ok := r2.(ssa.CallInstruction); ok {
							if f := staticCallee(c); f != nil && scc[unwrapSynthetic(f)] {
								return true
							}
						}
					}
				}
			}
		}
	}
	return false
}

// guardKind: fn (a member of recursion component scc) passes a guard on every path to each of its intra-component calls.
func (gs *guardSet) guardKind(fn *ssa.Function, scc map[*ssa.Function]bool) (kind, detail string) {
	gf := gs.facts(fn, scc)
	if len(gf.all) == 0 {
		return "", ""
	}
	ff := gf.flow(nil)
	ok := true
	eachInstr(fn, func(_ *ssa.BasicBlock, _ int, i ssa.Instruction) {
		call, isCall := i.(ssa.CallInstruction)
		if !isCall {
			return
		}
		if g := staticCallee(call); g != nil && scc[unwrapSynthetic(g)] {
			if !gf.satisfied(ff, i) {
				ok = false
			}
		}
	})
	if !ok {
		return "", "guard present but some recursive call is reachable without passing it"
	}
	d := strings.Join(gf.desc, ",")
	return strings.SplitN(d, ":", 2)[0], d
}

func isIntType(t types.Type) bool {
	b, ok := t.Underlying().(*types.Basic)
	return ok && b.Info()&types.IsInteger != 0
}

func init() {
	extraDebug["sccs"] = func(p *Program) {
		cg := BuildCG(p)
		var nodes []*ssa.Function
		for _, fn := range p.Funcs {
			id := FuncID(fn)
			if strings.HasPrefix(id, "pkg/") || strings.HasPrefix(id, "internal/") {
				nodes = append(nodes, fn)
			}
		}
		sccs := recursionSCCs(p, cg)
		res := resolvers(p)
		gs := newGuardSet(p)
		var gl []string
		for k, v := range gs.funcs {
			gl = append(gl, k+" = "+v)
		}
		sort.Strings(gl)
		for k, v := range gs.ptrFuncs {
			gl = append(gl, k+" = "+v)
		}
		fmt.Println("guard functions:\n  " + strings.Join(gl, "\n  "))
		for _, comp := range sccs {
			set := map[*ssa.Function]bool{}
			for _, f := range comp {
				set[f] = true
			}
			var guarded, unguarded []string
			for _, f := range comp {
				if k, d := gs.guardKind(f, set); k != "" {
					guarded = append(guarded, FuncID(f)+"["+d+"]")
				} else {
					unguarded = append(unguarded, FuncID(f))
				}
			}
			// acyclic after removing guarded?
			rest := map[*ssa.Function]bool{}
			for _, f := range comp {
				if k, _ := gs.guardKind(f, set); k == "" {
					rest[f] = true
				}
			}
			cyc := hasCycle(cg, rest)
			df := true
			for _, f := range comp {
				if cg.Reaches(f, func(x *ssa.Function) bool { return res[x] }) {
					df = false
				}
			}
			fmt.Printf("SCC size=%d cyclic-without-guards=%v deref-free=%v\n   guarded: %s\n   unguarded: %s\n", len(comp), cyc, df, strings.Join(guarded, " ; "), strings.Join(unguarded, " ; "))
		}
		fmt.Println("SCCs:", len(sccs))
	}
}

// hasCycle: the subgraph induced by nodes contains a cycle.
func hasCycle(cg *CG, nodes map[*ssa.Function]bool) bool {
	color := map[*ssa.Function]int{}
	var visit func(f *ssa.Function) bool
	visit = func(f *ssa.Function) bool {
		color[f] = 1
		for _, g := range cg.Out[f] {
			if !nodes[g] {
				continue
			}
			if color[g] == 1 {
				return true
			}
			if color[g] == 0 && visit(g) {
				return true
			}
		}
		color[f] = 2
		return false
	}
	for f := range nodes {
		if color[f] == 0 && visit(f) {
			return true
		}
	}
	return false
}

// resolvers: functions that map an object number to an object (read XRefTable.Table) — the only way recursion can follow an
// indirect reference and thereby leave the finite, already parsed nesting of one object.
func resolvers(p *Program) map[*ssa.Function]bool {
	out := map[*ssa.Function]bool{}
	for _, fn := range p.Funcs {
		eachInstr(fn, func(_ *ssa.BasicBlock, _ int, i ssa.Instruction) {
			if lk, ok := i.(*ssa.Lookup); ok {
				if strings.HasSuffix(fieldPath(lk.X), "Table") && strings.Contains(lk.X.Type().String(), "XRefTableEntry") {
					out[fn] = true
				}
			}
		})
	}
	return out
}

// recursionSCCs: SCCs of the call graph restricted to module functions, ignoring edges that exist only through
// interface methods of std interfaces (error, fmt.Stringer, io.Reader/Writer): those call chains are bounded by how values were
// constructed (error wrapping, writer stacking), not by the input document.
func recursionSCCs(p *Program, cg *CG) [][]*ssa.Function {
	var nodes []*ssa.Function
	for _, fn := range p.Funcs {
		id := FuncID(fn)
		if strings.HasPrefix(id, "pkg/") || strings.HasPrefix(id, "internal/") {
			nodes = append(nodes, fn)
		}
	}
	// rebuild Out without std-interface invoke edges
	out2 := map[*ssa.Function][]*ssa.Function{}
	for _, fn := range nodes {
		stdInvokeTargets := map[*ssa.Function]bool{}
		keep := map[*ssa.Function]bool{}
		eachInstr(fn, func(_ *ssa.BasicBlock, _ int, i ssa.Instruction) {
			c, ok := i.(ssa.CallInstruction)
			if !ok {
				return
			}
			cc := c.Common()
			if cc.IsInvoke() {
				std := cc.Method.Pkg() == nil || !strings.HasPrefix(cc.Method.Pkg().Path(), modPath)
				for _, g := range cg.Out[fn] {
					if g.Name() == cc.Method.Name() && g.Signature.Recv() != nil {
						if std {
							stdInvokeTargets[g] = true
						} else {
							keep[g] = true
						}
					}
				}
				return
			}
			if f := staticCallee(c); f != nil {
				keep[unwrapSynthetic(f)] = true
			}
		})
		for _, g := range cg.Out[fn] {
			if stdInvokeTargets[g] && !keep[g] {
				continue
			}
			out2[fn] = append(out2[fn], g)
		}
	}
	g2 := &CG{P: p, Out: out2, In: map[*ssa.Function][]*ssa.Function{}}
	return g2.SCCs(nodes)
}
