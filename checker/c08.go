package main

import (
	"fmt"
	"go/token"
	"go/types"
	"sort"
	"strings"

	"golang.org/x/tools/go/ssa"
)

// C08 — malformed input never crashes, overflows the stack or hangs (partial: recursion and chain-loop guards).

// guard functions: a call to one of these whose error/false result leaves the function bounds the recursion or detects a cycle.
var c08GuardCalls = map[string]string{
	"pkg/pdfcpu/model.CheckRecursionDepth":            "depth",
	"pkg/pdfcpu/model.XRefTable.CheckRecursionDepth":  "depth",
	"pkg/pdfcpu.checkBookmarkRecursionDepth":          "depth",
	"pkg/pdfcpu.checkBookmarkCycle":                   "visited",
	"pkg/pdfcpu/model.PageTreeVisit.Enter":            "visited",
	"pkg/pdfcpu/model.FormFieldVisit.Enter":           "visited",
	"pkg/pdfcpu/model.StructureTreeVisit.Enter":       "visited",
}

// guardKind inspects fn for a recursion guard that executes before the intra-SCC calls:
//   "depth"   : call to a depth checker, or an inline `depth > limit -> return` comparison on an int parameter
//   "visited" : test-and-set on a map parameter/captured map keyed by an object number, or call to a *Visit.Enter / cycle checker
// Returns "" when none is found.
func guardKind(fn *ssa.Function, scc map[*ssa.Function]bool) (kind, detail string) {
	// instructions that are guards
	guards := map[ssa.Instruction]string{}
	eachInstr(fn, func(_ *ssa.BasicBlock, _ int, i ssa.Instruction) {
		switch x := i.(type) {
		case *ssa.Call:
			_, ref := callRef(x)
			if k, ok := c08GuardCalls[ref]; ok {
				guards[i] = k + ":" + ref
				return
			}
			if strings.HasSuffix(ref, ".Enter") && strings.Contains(ref, "Visit") {
				guards[i] = "visited:" + ref
			}
		case *ssa.BinOp:
			// inline depth check: intParam > const/limit  leading to a return
			if x.Op == token.GTR || x.Op == token.GEQ {
				if prm, ok := x.X.(*ssa.Parameter); ok && isIntType(prm.Type()) {
					for _, e := range condEdges(x, true) {
						tgt := e.From.Succs[e.Succ]
						if _, ok := tgt.Instrs[len(tgt.Instrs)-1].(*ssa.Return); ok {
							guards[i] = "depth:inline " + prm.Name()
						}
					}
				}
			}
		case *ssa.Lookup:
			// visited[k] test followed by return on true, and a MapUpdate visited[k] = true somewhere in fn
			if _, isMap := x.X.Type().Underlying().(*types.Map); !isMap {
				return
			}
			mu := false
			eachInstr(fn, func(_ *ssa.BasicBlock, _ int, j ssa.Instruction) {
				if m, ok := j.(*ssa.MapUpdate); ok && (m.Map == x.X || sameValue(m.Map, x.X)) {
					mu = true
				}
			})
			if !mu {
				return
			}
			var bv ssa.Value = x
			if x.CommaOk {
				for _, rf := range *x.Referrers() {
					if ex, ok := rf.(*ssa.Extract); ok && ex.Index == 1 {
						bv = ex
					}
				}
			}
			for _, al := range wideAliases(bv) {
				for _, e := range condEdges(al, true) {
					tgt := e.From.Succs[e.Succ]
					if _, ok := tgt.Instrs[len(tgt.Instrs)-1].(*ssa.Return); ok {
						guards[i] = "visited:inline map test-and-set"
					}
				}
			}
		}
	})
	if len(guards) == 0 {
		return "", ""
	}
	// the guard must precede every intra-SCC call
	ff := NewFactFlow(fn, func(i ssa.Instruction) []string {
		if _, ok := guards[i]; ok {
			return []string{"guarded"}
		}
		return nil
	}, nil, nil, nil)
	ok := true
	eachInstr(fn, func(_ *ssa.BasicBlock, _ int, i ssa.Instruction) {
		call, isCall := i.(ssa.CallInstruction)
		if !isCall {
			return
		}
		if g := staticCallee(call); g != nil && scc[unwrapSynthetic(g)] {
			if !ff.Holds(i, "guarded") {
				ok = false
			}
		}
	})
	if !ok {
		return "", "guard present but some recursive call is reachable without passing it"
	}
	var ks []string
	for _, g := range guards {
		ks = append(ks, g)
	}
	sort.Strings(ks)
	return strings.SplitN(ks[0], ":", 2)[0], ks[0]
}

func isIntType(t types.Type) bool {
	b, ok := t.Underlying().(*types.Basic)
	return ok && b.Info()&types.IsInteger != 0
}

func init() {
	extraDebug["sccs"] = func(p *Program) {
		cg := BuildCG(p)
		var nodes []*ssa.Function
		for _, fn := range p.Funcs {
			id := FuncID(fn)
			if strings.HasPrefix(id, "pkg/") || strings.HasPrefix(id, "internal/") {
				nodes = append(nodes, fn)
			}
		}
		sccs := recursionSCCs(p, cg)
		res := resolvers(p)
		for _, comp := range sccs {
			set := map[*ssa.Function]bool{}
			for _, f := range comp {
				set[f] = true
			}
			var guarded, unguarded []string
			for _, f := range comp {
				if k, d := guardKind(f, set); k != "" {
					guarded = append(guarded, FuncID(f)+"["+d+"]")
				} else {
					unguarded = append(unguarded, FuncID(f))
				}
			}
			// acyclic after removing guarded?
			rest := map[*ssa.Function]bool{}
			for _, f := range comp {
				if k, _ := guardKind(f, set); k == "" {
					rest[f] = true
				}
			}
			cyc := hasCycle(cg, rest)
			df := true
			for _, f := range comp {
				if cg.Reaches(f, func(x *ssa.Function) bool { return res[x] }) {
					df = false
				}
			}
			fmt.Printf("SCC size=%d cyclic-without-guards=%v deref-free=%v\n   guarded: %s\n   unguarded: %s\n", len(comp), cyc, df, strings.Join(guarded, " ; "), strings.Join(unguarded, " ; "))
		}
		fmt.Println("SCCs:", len(sccs))
	}
}

// hasCycle: the subgraph induced by nodes contains a cycle.
func hasCycle(cg *CG, nodes map[*ssa.Function]bool) bool {
	color := map[*ssa.Function]int{}
	var visit func(f *ssa.Function) bool
	visit = func(f *ssa.Function) bool {
		color[f] = 1
		for _, g := range cg.Out[f] {
			if !nodes[g] {
				continue
			}
			if color[g] == 1 {
				return true
			}
			if color[g] == 0 && visit(g) {
				return true
			}
		}
		color[f] = 2
		return false
	}
	for f := range nodes {
		if color[f] == 0 && visit(f) {
			return true
		}
	}
	return false
}

// resolvers: functions that map an object number to an object (read XRefTable.Table) — the only way recursion can follow an
// indirect reference and thereby leave the finite, already parsed nesting of one object.
func resolvers(p *Program) map[*ssa.Function]bool {
	out := map[*ssa.Function]bool{}
	for _, fn := range p.Funcs {
		eachInstr(fn, func(_ *ssa.BasicBlock, _ int, i ssa.Instruction) {
			if lk, ok := i.(*ssa.Lookup); ok {
				if strings.HasSuffix(fieldPath(lk.X), "Table") && strings.Contains(lk.X.Type().String(), "XRefTableEntry") {
					out[fn] = true
				}
			}
		})
	}
	return out
}

// recursionSCCs: SCCs of the call graph restricted to module functions, ignoring edges that exist only through
// interface methods of std interfaces (error, fmt.Stringer, io.Reader/Writer): those call chains are bounded by how values were
// constructed (error wrapping, writer stacking), not by the input document.
func recursionSCCs(p *Program, cg *CG) [][]*ssa.Function {
	var nodes []*ssa.Function
	for _, fn := range p.Funcs {
		id := FuncID(fn)
		if strings.HasPrefix(id, "pkg/") || strings.HasPrefix(id, "internal/") {
			nodes = append(nodes, fn)
		}
	}
	// rebuild Out without std-interface invoke edges
	out2 := map[*ssa.Function][]*ssa.Function{}
	for _, fn := range nodes {
		stdInvokeTargets := map[*ssa.Function]bool{}
		keep := map[*ssa.Function]bool{}
		eachInstr(fn, func(_ *ssa.BasicBlock, _ int, i ssa.Instruction) {
			c, ok := i.(ssa.CallInstruction)
			if !ok {
				return
			}
			cc := c.Common()
			if cc.IsInvoke() {
				std := cc.Method.Pkg() == nil || !strings.HasPrefix(cc.Method.Pkg().Path(), modPath)
				for _, g := range cg.Out[fn] {
					if g.Name() == cc.Method.Name() && g.Signature.Recv() != nil {
						if std {
							stdInvokeTargets[g] = true
						} else {
							keep[g] = true
						}
					}
				}
				return
			}
			if f := staticCallee(c); f != nil {
				keep[unwrapSynthetic(f)] = true
			}
		})
		for _, g := range cg.Out[fn] {
			if stdInvokeTargets[g] && !keep[g] {
				continue
			}
			out2[fn] = append(out2[fn], g)
		}
	}
	g2 := &CG{P: p, Out: out2, In: map[*ssa.Function][]*ssa.Function{}}
	return g2.SCCs(nodes)
}
