package main

import (
	"fmt"
	"go/constant"
	"go/token"
	"go/types"
	"sort"
	"strings"

	"golang.org/x/tools/go/ssa"
)

// C01/C02/C03 — shared staging-layer rules.
//
//   WMC  (C01.R3 / C02.R1): closed world of destructive filesystem primitives.
//   PAIR (C01.R1): every staged resource acquired in a function is disposed on every exit, and
//        the disposal is registered by a defer before anything that can fail or panic runs.
//   FLAG (C01.R2): a publishing call inside a deferred closure is keyed on a completion flag.
//   MPT  (C01.R4 / C02.R2 / C03): shape of the disposal / publishing routines themselves.

// ---------- destructive primitive table ----------

// category of a primitive: what it can do to an existing path
var fsPrimitives = map[string]string{
	"os.Create":                       "truncate",
	"os.WriteFile":                    "truncate",
	"os.Truncate":                     "truncate",
	"os.File.Truncate":                "truncate",
	"io/ioutil.WriteFile":             "truncate",
	"os.OpenFile":                     "open", // refined by flag constant
	"os.Rename":                       "rename",
	"internal/fileutil.ReplaceFile":   "rename",
	// module wrappers that rename a caller-supplied path over a caller-supplied destination
	"pkg/api.replaceFile":                "rename",
	"pkg/api.fileOperations.replaceFile": "rename",
	"os.Remove":                       "remove",
	"os.RemoveAll":                    "remove",
	"internal/fileutil.RemoveFile":    "remove",
	"os.Chmod":                        "chmod",
	"os.File.Chmod":                   "chmod",
	"os.Chown":                        "chmod",
	"os.Chtimes":                      "chmod",
	"os.CreateTemp":                   "temp",
	"os.MkdirTemp":                    "temp",
	"io/ioutil.TempFile":              "temp",
	"io/ioutil.TempDir":               "temp",
	"os.Mkdir":                        "mkdir",
	"os.MkdirAll":                     "mkdir",
	"os.Link":                         "link",
	"os.Symlink":                      "link",
	"os.File.WriteAt":                 "writeat",
	"os.File.Seek":                    "",
	"os.CopyFS":                       "truncate",
	"os.Root.Create":                  "truncate",
	"os.Root.OpenFile":                "open",
	"os.Root.Remove":                  "remove",
	"os.Root.RemoveAll":               "remove",
	"os.Root.Rename":                  "rename",
	"os.Root.WriteFile":               "truncate",
	"os.Root.Mkdir":                   "mkdir",
	"os.Root.MkdirAll":                "mkdir",
	"os.Root.Chmod":                   "chmod",
	"os.Root.Link":                    "link",
	"os.Root.Symlink":                 "link",
	"os.OpenInRoot":                   "",
	"internal/fileutil.SyncDirectory": "",
}

// openFlagCategory classifies an os.OpenFile flag constant.
func openFlagCategory(flag int64) string {
	const (
		oWRONLY = 0x1
		oRDWR   = 0x2
		oAPPEND = 0x400
		oCREATE = 0x40
		oEXCL   = 0x80
		oTRUNC  = 0x200
	)
	w := flag&(oWRONLY|oRDWR) != 0
	switch {
	case !w && flag&(oCREATE|oTRUNC) == 0:
		return "" // read-only
	case flag&oTRUNC != 0:
		return "truncate"
	case flag&oCREATE != 0 && flag&oEXCL != 0:
		return "create-excl"
	case flag&oCREATE != 0:
		return "create-or-write" // creates or opens an existing file for writing
	default:
		return "write-existing" // in-place write
	}
}

// fsRef is one reference (call or function value) to a destructive primitive.
type fsRef struct {
	fn    *ssa.Function // containing function (may be a closure)
	root  *ssa.Function
	instr ssa.Instruction
	prim  string
	cat   string
	call  bool
}

func collectFSRefs(p *Program) []fsRef {
	var out []fsRef
	for _, fn := range p.Funcs {
		fn := fn
		eachInstr(fn, func(_ *ssa.BasicBlock, _ int, i ssa.Instruction) {
			seen := map[string]bool{}
			add := func(prim string, call bool, cat string) {
				if seen[prim] {
					return
				}
				seen[prim] = true
				out = append(out, fsRef{fn: fn, root: rootFunc(fn), instr: i, prim: prim, cat: cat, call: call})
			}
			if c, ok := i.(ssa.CallInstruction); ok {
				if o := calleeObject(c); o != nil {
					if _, isFn := o.(*types.Func); isFn {
						ref := objRef(o)
						if cat, ok := fsPrimitives[ref]; ok {
							if cat == "open" {
								cat = "open-dynamic-flag"
								args := c.Common().Args
								if len(args) >= 2 {
									if n, ok := constIntAny(args[1]); ok {
										cat = openFlagCategory(n)
									} else if n, ok := constFlagThroughParam(c, fn); ok {
										cat = openFlagCategory(n)
									}
								}
							}
							if cat != "" {
								add(ref, true, cat)
							}
						}
					}
				}
			}
			for _, op := range i.Operands(nil) {
				if op == nil || *op == nil {
					continue
				}
				f, ok := (*op).(*ssa.Function)
				if !ok {
					continue
				}
				if c, isCall := i.(ssa.CallInstruction); isCall && c.Common().Value == *op {
					continue
				}
				f = unwrapSynthetic(f)
				if o := f.Object(); o != nil {
					ref := objRef(o)
					if cat, ok := fsPrimitives[ref]; ok && cat != "" {
						if cat == "open" {
							cat = "open-dynamic-flag"
						}
						add(ref, false, cat)
					}
				}
			}
		})
	}
	return out
}

func constIntAny(v ssa.Value) (int64, bool) {
	switch x := v.(type) {
	case *ssa.Const:
		if x.Value != nil && x.Value.Kind() == constant.Int {
			n, ok := constant.Int64Val(x.Value)
			return n, ok
		}
	case *ssa.Convert:
		return constIntAny(x.X)
	case *ssa.ChangeType:
		return constIntAny(x.X)
	}
	return 0, false
}

// constFlagThroughParam: `func(name string, flag int, perm FileMode) { return os.OpenFile(name, flag, perm) }` —
// the flag is the wrapper's own parameter; classify by the constants passed by all callers of the field it is bound to
// is beyond this helper: returns !ok (the wrapper is then listed in the table as a pass-through).
func constFlagThroughParam(c ssa.CallInstruction, fn *ssa.Function) (int64, bool) { return 0, false }

// allowFS: root function -> category -> reason. A reference is allowed when its root function has an entry for its category.
// "staging" entries are the staging layer proper; "non-output" entries touch pdfcpu's own configuration/state, never a document output.
type fsAllow struct {
	cats   string // space separated categories
	reason string
}

var c01AllowFS = map[string]fsAllow{
	// --- internal/fileutil: the primitive wrappers
	"internal/fileutil.ReplaceFile": {"rename", "the rename wrapper every publisher uses"},
	"internal/fileutil.RemoveFile":  {"remove", "remove-if-exists wrapper used by staging cleanup"},
	// --- pkg/api staging layer (stagedOutput)
	"pkg/api.defaultFileOperations":            {"open-dynamic-flag temp chmod remove rename", "production operation table of stagedOutput: open pass-through (only caller passes O_CREATE|O_EXCL, see R4), CreateTemp, Chmod on the temp handle, Remove, ReplaceFile"},
	"pkg/api.openStagedOutputWithOperations":   {"open-dynamic-flag temp chmod", "the stager: O_EXCL reservation or hidden sibling temp + mode copy"},
	"pkg/api.(fileOperations).removeFile":      {"remove", "removes the stager's own temp/reserved file (tolerates not-exist)"},
	"pkg/api.(fileOperations).replaceFile":     {"rename", "publishes the stager's temp over the destination"},
	"pkg/api.createCertificateTransactionFile": {"temp", "certificate import staging file (hidden sibling temp)"},
	"pkg/api.(stagedOutput).commit":             {"rename", "the publisher: renames the stager's own temp over the destination after close (C02.R2)"},
	"pkg/api.replaceFile":                       {"rename", "package-level wrapper of the default operation table (no production caller; a new caller is reported)"},
	"pkg/api.backupCertificateDestinations":     {"rename", "certificate import transaction: moves an existing destination into the transaction's backup name (C06)"},
	"pkg/api.publishCertificateImports":         {"rename", "certificate import transaction: publishes the staged certificate files (C06)"},
	"pkg/api.rollbackCertificateImports":        {"rename", "certificate import transaction: restores the backups (C06)"},
	// --- cut / poster / ndown writer
	"pkg/api.defaultCutOutputOperations": {"remove rename", "production operation table of the cut writer"},
	"pkg/api.createCutTemporaryOutput":   {"create-excl", "creates the hidden sibling temp file with O_EXCL"},
	"pkg/api.writeCutOutputWith":         {"create-excl rename", "cut writer: temp creation and publish by rename"},
	"pkg/api.removeCutTemporaryOutput":   {"remove", "removes the cut writer's own temp"},
	// --- attachment extraction
	"pkg/api.reserveAttachmentOutputs": {"create-excl", "reserves every extraction target with O_EXCL before anything is written"},
	// --- pkg/pdfcpu staging layer
	"pkg/pdfcpu.openStagedFile":   {"create-excl", "creates the hidden staging file with O_EXCL"},
	"pkg/pdfcpu.createStagedFile": {"chmod remove", "copies the destination's mode to the staging handle; removes the staging file if that fails"},
	"pkg/pdfcpu.writeNewFile":     {"create-excl remove", "no-overwrite writer: O_EXCL create, removes its own file on failure"},
	"pkg/pdfcpu.WriteReader":      {"rename remove", "passes ReplaceFile/Remove to writeReader (staged write + rename)"},
	"pkg/pdfcpu.CopyFile":         {"rename remove", "passes ReplaceFile/Remove to finishStagedFile"},
	"pkg/pdfcpu.finishWriteFile":  {"rename remove", "passes ReplaceFile/Remove to finishStagedFile"},
	// --- pkg/cli staging layer
	"pkg/cli.createStreamOutput":               {"create-excl temp chmod remove", "CLI stream output: O_EXCL create or hidden temp + chmod of the temp handle; removes the temp if chmod fails"},
	"pkg/cli.removeStreamOutput":               {"remove", "removes the CLI's own reserved/temporary output"},
	"pkg/cli.(*streamInOutFinalizer).finalize": {"rename", "publishes the CLI temp output by rename"},
	"pkg/cli.readSeekerFromStdin":              {"remove", "binds os.Remove for its own stdin spool file"},
	"pkg/cli.(*temporaryInput).finalize":       {"remove", "removes its own stdin spool file"},
	"pkg/cli.init":                             {"temp", "createTemporaryInputFile = os.CreateTemp (stdin spool file in os.TempDir)"},
	"pkg/cli.createImportImagesStreamOutput":   {"create-excl", "reserves the import output with O_EXCL"},
	"pkg/cli.multiFillFormFieldsToStdout":      {"temp remove", "private temp directory under os.TempDir for stdout multi-fill; removed afterwards"},
	// --- font / cheat sheet / certificate transactional installers (C06's subject; their operation tables and the functions using them)
	"pkg/api.defaultFontAPIOperations":                {"temp remove rename", "font install: staging dirs (MkdirTemp), RemoveAll of its staging, rename of staged gob"},
	"pkg/api.defaultFontInstallFileOperations":        {"temp remove rename", "font install transaction table"},
	"pkg/api.defaultCheatSheetFileOperations":         {"temp remove rename", "cheat sheet transaction table"},
	"pkg/api.commitStagedFontsWithOperations":         {"temp rename remove", "transactional publisher (backup dir, rename in, remove backup)"},
	"pkg/api.rollbackCommittedFonts":                  {"remove rename", "rollback of the font publisher"},
	"pkg/api.publishCheatSheets":                      {"temp rename remove", "transactional publisher of cheat sheets"},
	"pkg/api.rollbackCheatSheets":                     {"remove rename", "rollback of the cheat sheet publisher"},
	"pkg/api.createUserFontDemoBatch":                 {"temp remove", "cheat sheet staging directory"},
	"pkg/api.installFontInput":                        {"temp", "per-input staging directory"},
	"pkg/api.installFontInputs":                       {"remove", "removes per-input staging directories"},
	"pkg/api.installFonts":                            {"temp remove", "font install staging directory and its removal"},
	"pkg/api.mergeStagedFont":                         {"rename", "moves a staged gob inside the private staging directory"},
	"pkg/font.defaultGobPersistenceOperations":        {"temp chmod remove rename", "gob writer table: CreateTemp sibling, chmod on handle, remove temp, rename"},
	"pkg/font.writeGobWithOperations":                 {"temp rename", "gob writer: temp + publish by rename"},
	"pkg/font.encodeGobFile":                          {"chmod", "chmod on the gob temp handle"},
	"pkg/font.defaultCollectionInstallFileOperations": {"temp remove rename", "collection installer table"},
	"pkg/font.commitCollectionFonts":                  {"temp rename remove", "transactional publisher of collection fonts"},
	"pkg/font.rollbackCollectionFonts":                {"remove rename", "rollback of the collection publisher"},
	"pkg/font.installTrueTypeCollectionResults":       {"temp remove", "collection staging directory and its removal"},
	// --- in place by API contract (not a staged replacement)
	"pkg/api.AddAnnotationsFile":    {"write-existing", "incr=true explicitly requests an ISO 32000 incremental update, which by definition is appended to the input file; the non-incremental path is staged"},
	"pkg/api.AddAnnotationsMapFile": {"write-existing", "same: incr=true appends an incremental update to the input file"},
	"pkg/api.RemoveAnnotationsFile": {"write-existing", "same: incr=true appends an incremental update to the input file"},
	"pkg/api.PatchFile":             {"write-existing writeat", "byte-patch primitive whose contract is to write bb at offset in place (used by signing tooling); not one of the file-based operations"},
	// --- not a document output: pdfcpu's own configuration / state
	"pkg/pdfcpu/model.EnsureDefaultConfigAt": {"mkdir", "creates pdfcpu's own config, fonts and certs directories"},
	"pkg/pdfcpu/model.ensureConfigFileAt":    {"truncate", "(re)writes pdfcpu's own config.yml inside the config directory"},
	"pkg/pdfcpu/model.resetCertificatesDir":  {"remove", "explicit `certificates reset`: empties pdfcpu's own trusted-certificate directory"},
	"pkg/api.ensureTrustedCertificateDir":    {"mkdir", "creates pdfcpu's own trusted-certificate directory"},
	"pkg/pdfcpu.AppendStatsFile":             {"open-dynamic-flag", "stats CSV append (O_APPEND|O_CREATE flag chosen in appendStatsFile): a log, not a document output"},
	// only present with build tag pdfcpu_eutl (optional entries: not reported as stale in other configurations)
	"pkg/pdfcpu/model.installDefaultCertificates": {"mkdir", "[optional] creates the eu/ directory inside pdfcpu's own trusted-certificate directory"},
	"pkg/pdfcpu/model.installDefaultCertificate":  {"truncate", "[optional] writes an embedded EU trust list file into pdfcpu's own trusted-certificate directory"},
}

var _ = fmt.Sprint
var _ = token.ADD
var _ = sort.Strings
var _ = strings.Join

// destructiveFields: struct fields of func type whose production binding is (or wraps) a destructive primitive.
// field -> categories
func destructiveFields(p *Program, cg *CG) map[*types.Var]map[string]bool {
	refsIn := map[*ssa.Function]map[string]bool{}
	for _, r := range collectFSRefs(p) {
		if !r.call {
			continue
		}
		if refsIn[r.fn] == nil {
			refsIn[r.fn] = map[string]bool{}
		}
		refsIn[r.fn][r.cat] = true
	}
	out := map[*types.Var]map[string]bool{}
	for fld, fns := range cg.Bindings {
		for _, f := range fns {
			cats := map[string]bool{}
			if o := f.Object(); o != nil {
				if cat, ok := fsPrimitives[objRef(o)]; ok && cat != "" {
					cats[cat] = true
				}
			}
			for c := range refsIn[f] {
				cats[c] = true
			}
			if len(cats) > 0 {
				if out[fld] == nil {
					out[fld] = map[string]bool{}
				}
				for c := range cats {
					out[fld][c] = true
				}
			}
		}
	}
	// bindings of non-subject functions (os.Remove etc.) are not in cg.Bindings when funcValue() returns a non-subject fn: they are
	// (funcValue does not filter), so nothing more to do.
	return out
}

// collectFSFieldCalls: calls through destructive operation-table fields.
func collectFSFieldCalls(p *Program, cg *CG) []fsRef {
	df := destructiveFields(p, cg)
	var out []fsRef
	for _, fn := range p.Funcs {
		fn := fn
		eachInstr(fn, func(_ *ssa.BasicBlock, _ int, i ssa.Instruction) {
			c, ok := i.(ssa.CallInstruction)
			if !ok {
				return
			}
			if staticCallee(c) != nil || c.Common().IsInvoke() {
				return
			}
			fld := fieldOfValue(c.Common().Value)
			if fld == nil || df[fld] == nil {
				return
			}
			var cats []string
			for k := range df[fld] {
				cats = append(cats, k)
			}
			sort.Strings(cats)
			out = append(out, fsRef{fn: fn, root: rootFunc(fn), instr: i, prim: objRef(fld), cat: strings.Join(cats, "+"), call: true})
		})
	}
	return out
}

// ---------- resource kinds (PAIR / FLAG) ----------

type resKind struct {
	name       string
	acquire    []string // callee refs: functions, methods or operation-table fields
	dispose    []string // callee refs that end the obligation (cleanup or publish)
	publish    []string // subset of dispose that can make the output visible under its final name
	resultFunc bool     // a func-typed result of the acquisition is itself the disposer (and publisher)
	owners     []string // FuncIDs that hand the resource to their caller on success (ownership-out): only failure returns are checked
	renames    []string // calls in the acquiring function's body that publish the resource; a bool set only after their success may excuse a deferred cleanup
	// exemptFalseParam: the obligation exists only while the named bool parameter of the acquiring function is true
	// (multi-fill: intermediates are rolled back only in merge mode; otherwise each output is a final result kept by design).
	exemptFalseParam string
	noFailEdge       bool // the acquisition may have created its file even when it returns an error
	why              string
}

var c01Kinds = []resKind{
	{
		name:    "api-staged-output",
		acquire: []string{"pkg/api.openStagedOutput", "pkg/api.openStagedOutputWithOperations"},
		dispose: []string{"pkg/api.stagedOutput.cleanup", "pkg/api.stagedOutput.commit"},
		publish: []string{"pkg/api.stagedOutput.commit"},
		owners:  []string{"pkg/api.openStagedOutput"},
		why:     "a reserved output (O_EXCL) or hidden temp file next to the destination exists from here on",
	},
	{
		name:       "cli-stream-output",
		acquire:    []string{"pkg/cli.streamInOutForOperation"},
		resultFunc: true,
		why:        "a reserved/temporary CLI output and possibly a stdin spool file exist from here on",
	},
	{
		name:    "cli-import-output",
		acquire: []string{"pkg/cli.createImportImagesStreamOutput", "pkg/cli.createStreamOutput"},
		dispose: []string{"pkg/cli.streamInOutFinalizer.finalize", "pkg/cli.removeStreamOutput"},
		publish: []string{"pkg/cli.streamInOutFinalizer.finalize"},
		owners:  []string{"pkg/cli.createImportImagesStreamOutput", "pkg/cli.streamInOutForOperation"},
		why:     "a reserved/temporary CLI output exists from here on",
	},
	{
		name:    "pdfcpu-write-file",
		acquire: []string{"pkg/pdfcpu.createWriteFile"},
		dispose: []string{"pkg/pdfcpu.finishWriteFile"},
		publish: []string{"pkg/pdfcpu.finishWriteFile"},
		why:     "the hidden staging file of WriteContext exists from here on",
	},
	{
		name:    "pdfcpu-staged-file",
		acquire: []string{"pkg/pdfcpu.createStagedFile", "pkg/pdfcpu.openStagedFile", "pkg/pdfcpu.createWriteReaderTemp"},
		dispose: []string{"pkg/pdfcpu.finishStagedFile", "os.Remove"},
		publish: []string{"pkg/pdfcpu.finishStagedFile"},
		owners:  []string{"pkg/pdfcpu.createStagedFile", "pkg/pdfcpu.createWriteReaderTemp", "pkg/pdfcpu.createWriteFile"},
		why:     "a hidden .tmp-* staging file exists from here on",
	},
	{
		name:    "api-raw-temp",
		acquire: []string{"pkg/api.fileOperations.createTempFn", "pkg/api.fileOperations.openExclusiveFn"},
		dispose: []string{"pkg/api.fileOperations.removeFile", "pkg/api.fileOperations.removeFn"},
		owners:  []string{"pkg/api.openStagedOutputWithOperations", "pkg/api.createCertificateTransactionFile"},
		why:     "the raw temp/reserved file of the staging layer exists from here on",
	},
	{
		name:    "api-cut-temp",
		acquire: []string{"pkg/api.cutOutputOperations.createTemp"},
		dispose: []string{"pkg/api.removeCutTemporaryOutput", "pkg/api.cutOutputOperations.remove"},
		renames: []string{"pkg/api.cutOutputOperations.rename"},
		why:     "the hidden temp file of the cut/poster/ndown writer exists from here on",
	},
	{
		name:       "api-attachment-reservations",
		acquire:    []string{"pkg/api.reserveAttachmentOutputs"},
		dispose:    []string{"pkg/api.releaseAttachmentOutputReservations"},
		noFailEdge: true,
		why:        "O_EXCL reservation files for the extraction targets exist from here on, also when reserving a later target failed (the partial list is handed back with the error)",
	},
	{
		name:             "api-multifill-intermediates",
		acquire:          []string{"pkg/api.multiFillJSONForm", "pkg/api.multiFillCSVRecord"},
		dispose:          []string{"pkg/api.rollbackMultiFillOutputs"},
		exemptFalseParam: "merge",
		noFailEdge:       true,
		why:              "in merge mode the per-record intermediate PDFs written so far must be rolled back when a later record or the merge fails",
	},
}

// ---------- call triviality ----------

// trivial decides whether a call can run document-processing code or caller-supplied callbacks (logger, reader, writer).
// Std-library calls are trivial; module functions are trivial when everything they (transitively) call is trivial and they
// make no dynamic calls other than through operation-table fields whose production bindings are trivial.
type triviality struct {
	cg   *CG
	memo map[*ssa.Function]int // 1 trivial, 2 non-trivial, 3 in progress
}

func (t *triviality) fn(f *ssa.Function) bool {
	if f == nil {
		return false
	}
	if !isSubject(f) {
		return true
	}
	switch t.memo[f] {
	case 1:
		return true
	case 2, 3:
		return false
	}
	t.memo[f] = 3
	ok := true
	eachInstr(f, func(_ *ssa.BasicBlock, _ int, i ssa.Instruction) {
		if !ok {
			return
		}
		if c, isCall := i.(ssa.CallInstruction); isCall {
			if !t.call(c) {
				ok = false
			}
		}
	})
	if ok {
		t.memo[f] = 1
	} else {
		t.memo[f] = 2
	}
	return ok
}

func (t *triviality) call(c ssa.CallInstruction) bool {
	cc := c.Common()
	if _, isB := cc.Value.(*ssa.Builtin); isB {
		return true
	}
	if cc.IsInvoke() {
		// interface method: trivial only for std interfaces implemented by std types we cannot see... be conservative:
		// error.Error, io.Closer on *os.File are common; accept methods of interfaces declared outside the module when the
		// receiver's static type is a std named interface AND the method is Close/Error/Name/String.
		if cc.Method.Pkg() == nil || !strings.HasPrefix(cc.Method.Pkg().Path(), modPath) {
			switch cc.Method.Name() {
			case "Error", "Close", "Name", "String", "Mode", "IsDir", "Size", "Perm":
				return true
			}
		}
		return false
	}
	if f := staticCallee(c); f != nil {
		return t.fn(unwrapSynthetic(f))
	}
	if fld := fieldOfValue(cc.Value); fld != nil {
		bs := t.cg.Bindings[fld]
		if len(bs) == 0 {
			return false
		}
		for _, b := range bs {
			if !t.fn(b) {
				return false
			}
		}
		return true
	}
	return false
}

// ---------- the PAIR / FLAG analysis ----------

func inSet(s string, set []string) bool {
	for _, x := range set {
		if x == s {
			return true
		}
	}
	return false
}

// valueFromCall: v is (an alias of) a result of call a — directly, via Extract, via a local cell or a captured cell.
func valueFromCall(v ssa.Value, a ssa.Value, depth int) bool {
	if depth > 8 || v == nil {
		return false
	}
	if v == a {
		return true
	}
	switch x := v.(type) {
	case *ssa.Extract:
		return x.Tuple == a
	case *ssa.UnOp:
		if x.Op == token.MUL {
			cell := cellRoot(x.X)
			// every store into the cell must be from a
			n, good := 0, 0
			var visit func(fn *ssa.Function, c ssa.Value)
			visit = func(fn *ssa.Function, c ssa.Value) {
				eachInstr(fn, func(_ *ssa.BasicBlock, _ int, i ssa.Instruction) {
					switch y := i.(type) {
					case *ssa.Store:
						if y.Addr == c {
							n++
							if valueFromCall(y.Val, a, depth+1) {
								good++
							}
						}
					case *ssa.MakeClosure:
						for bi, b := range y.Bindings {
							if b == c {
								cf := y.Fn.(*ssa.Function)
								visit(cf, cf.FreeVars[bi])
							}
						}
					}
				})
			}
			if al, ok := cell.(*ssa.Alloc); ok {
				visit(al.Parent(), al)
				return n > 0 && n == good
			}
		}
	case *ssa.Phi:
		for _, e := range x.Edges {
			if !valueFromCall(e, a, depth+1) {
				return false
			}
		}
		return len(x.Edges) > 0
	case *ssa.ChangeType:
		return valueFromCall(x.X, a, depth+1)
	}
	return false
}

type pairCtx struct {
	c           *Ctx
	triv        *triviality
	rule        string // rule id prefix e.g. "C01"
	r1          string // rule id for the PAIR obligations (default rule+".R1")
	r2          string // rule id for the FLAG obligations (default rule+".R2")
	flagOnly    bool   // only the FLAG discipline of deferred publishers is checked (C02.R5)
	noPanicRule bool   // only leaks on normal paths are reported (C06: staging directories)
}

// disposesIn reports whether function body f (closure or callee; searched to the given depth through static module callees
// and nested closures) contains a call to a disposer of kind k for acquisition a. Returns the first such call and whether a
// publisher is among them.
func (pc *pairCtx) disposalsIn(f *ssa.Function, k *resKind, a ssa.Value, depth int, seen map[*ssa.Function]bool) (calls []ssa.CallInstruction) {
	if f == nil || depth < 0 || seen[f] || f.Blocks == nil {
		return nil
	}
	seen[f] = true
	eachInstr(f, func(_ *ssa.BasicBlock, _ int, i ssa.Instruction) {
		c, ok := i.(ssa.CallInstruction)
		if !ok {
			if mc, ok := i.(*ssa.MakeClosure); ok {
				calls = append(calls, pc.disposalsIn(mc.Fn.(*ssa.Function), k, a, depth, seen)...)
			}
			return
		}
		if pc.isDisposal(c, k, a) {
			calls = append(calls, c)
			return
		}
		if g := staticCallee(c); g != nil && isSubject(g) && depth > 0 {
			calls = append(calls, pc.disposalsIn(g, k, a, depth-1, seen)...)
		}
	})
	return calls
}

func (pc *pairCtx) isDisposal(c ssa.CallInstruction, k *resKind, a ssa.Value) bool {
	_, ref := callRef(c)
	if ref != "" && inSet(ref, k.dispose) {
		return true
	}
	if k.resultFunc && a != nil && staticCallee(c) == nil && !c.Common().IsInvoke() {
		if valueFromCall(c.Common().Value, a, 0) {
			return true
		}
	}
	// the finalizer is handed to a helper that runs the operation under a deferred abort (checked once, checkFinalizeHelpers)
	if k.resultFunc && a != nil && c01FinalizeHelpers[ref] && len(c.Common().Args) > 0 && valueFromCall(c.Common().Args[0], a, 0) {
		return true
	}
	return false
}

// c01FinalizeHelpers: helpers taking (finalize func(error) error, op func() error): they run op and then finalize(err); if op
// panics a deferred call finalizes with an error (which discards the output).
var c01FinalizeHelpers = map[string]bool{"pkg/cli.finalizeAfter": true}

// checkFinalizeHelpers (C01.R2): in each helper a defer is registered before op is called; its closure calls the finalize
// parameter with a non-nil error unless a captured flag is set; the flag is set only after op returned.
func checkFinalizeHelpers(c *Ctx) {
	p, r := c.P, c.R
	for ref := range c01FinalizeHelpers {
		fn := p.Func(ref)
		if fn == nil {
			r.Note("C01.R2: finalize helper %s not present in this tree", ref)
			continue
		}
		if len(fn.Params) < 2 {
			r.Bad("C01.R2", ref, "helper shape", p.Pos(fn.Pos()), "expected (finalize, op) parameters")
			continue
		}
		fin, op := fn.Params[0], fn.Params[1]
		var deferI *ssa.Defer
		var opCall ssa.Instruction
		var flagCell ssa.Value
		eachInstr(fn, func(_ *ssa.BasicBlock, _ int, i ssa.Instruction) {
			switch x := i.(type) {
			case *ssa.Defer:
				if mc, ok := x.Call.Value.(*ssa.MakeClosure); ok {
					cl := mc.Fn.(*ssa.Function)
					callsFin, guarded := false, false
					eachInstr(cl, func(_ *ssa.BasicBlock, _ int, j ssa.Instruction) {
						cc, ok := j.(*ssa.Call)
						if !ok {
							return
						}
						if fv, ok := cc.Call.Value.(*ssa.UnOp); ok {
							if f2, ok := fv.X.(*ssa.FreeVar); ok {
								if b := freeVarBinding(f2); b != nil && derivesFromParam(throughLoad(b), fin) || cellHoldsParam(b, fin) {
									callsFin = true
									if len(cc.Call.Args) == 1 && certainlyNonNilErr(cc.Call.Args[0], cc) {
										if fl := abortFlagGuarding(cc); fl != nil {
											guarded = true
											flagCell = fl
										}
									}
								}
							}
						}
						if f2, ok := cc.Call.Value.(*ssa.FreeVar); ok {
							if b := freeVarBinding(f2); b == ssa.Value(fin) {
								callsFin = true
								if len(cc.Call.Args) == 1 && certainlyNonNilErr(cc.Call.Args[0], cc) {
									if fl := abortFlagGuarding(cc); fl != nil {
										guarded = true
										flagCell = fl
									}
								}
							}
						}
					})
					if callsFin && guarded {
						deferI = x
					}
				}
			case *ssa.Call:
				if x.Call.Value == ssa.Value(op) {
					opCall = i
				} else if ld, ok := x.Call.Value.(*ssa.UnOp); ok && cellHoldsParam(ld.X, op) {
					opCall = i
				}
			}
		})
		pos := p.Pos(fn.Pos())
		switch {
		case deferI == nil:
			r.Bad("C01.R2", ref, "helper defer", pos, "no deferred closure that calls the finalize parameter with a non-nil error under a completion flag: a panic in the operation would skip the finalizer")
		case opCall == nil:
			r.Bad("C01.R2", ref, "helper defer", pos, "the op parameter is not called")
		default:
			ff := NewFactFlow(fn, func(i ssa.Instruction) []string {
				if i == ssa.Instruction(deferI) {
					return []string{"deferred"}
				}
				return nil
			}, nil, nil, nil)
			okOrder := ff.Holds(opCall, "deferred")
			// the flag is stored true only after op returned
			okFlag := true
			eachInstr(fn, func(_ *ssa.BasicBlock, _ int, i ssa.Instruction) {
				st, ok := i.(*ssa.Store)
				if !ok || flagCell == nil || cellRoot(st.Addr) != cellRoot(flagCell) {
					return
				}
				if cst, ok := st.Val.(*ssa.Const); ok && cst.Value != nil && cst.Value.String() == "true" {
					after := false
					for _, x := range instrsAfter(opCall) {
						if x == i {
							after = true
						}
					}
					if !after {
						okFlag = false
					}
				}
			})
			if okOrder && okFlag {
				r.OK("C01.R2", ref, "helper defer", pos, "the abort is deferred before op is called; the completion flag is set only after op returned; the deferred closure finalizes with a non-nil error otherwise", true)
			} else {
				r.Bad("C01.R2", ref, "helper defer", pos, fmt.Sprintf("finalize helper discipline broken (defer before op: %v, flag set only after op: %v)", okOrder, okFlag))
			}
		}
	}
}

func throughLoad(v ssa.Value) ssa.Value {
	if ld, ok := v.(*ssa.UnOp); ok && ld.Op == token.MUL {
		return ld.X
	}
	return v
}

// abortFlagGuarding: the call runs only on the edge where a captured bool is false (the operation did not complete).
func abortFlagGuarding(call ssa.CallInstruction) ssa.Value {
	b := call.Block()
	for _, blk := range b.Parent().Blocks {
		if len(blk.Instrs) == 0 {
			continue
		}
		iff, ok := blk.Instrs[len(blk.Instrs)-1].(*ssa.If)
		if !ok {
			continue
		}
		cond, want := iff.Cond, true
		for {
			if u, ok := cond.(*ssa.UnOp); ok && u.Op == token.NOT {
				cond, want = u.X, !want
				continue
			}
			break
		}
		ld, ok := cond.(*ssa.UnOp)
		if !ok || ld.Op != token.MUL {
			continue
		}
		fv, ok := ld.X.(*ssa.FreeVar)
		if !ok || !isBoolType(fv.Type().(*types.Pointer).Elem()) {
			continue
		}
		succ := 1 // edge on which the flag is false
		if !want {
			succ = 0
		}
		if edgeDominates(Edge{blk, succ}, b) {
			return freeVarBinding(fv)
		}
	}
	return nil
}

// certainlyNonNilErr: classified non-nil, or a package-level error variable (errors.New sentinel).
func certainlyNonNilErr(v ssa.Value, at ssa.Instruction) bool {
	if classifyErr(v, at, nil, 0) == errNonNil {
		return true
	}
	if ld, ok := v.(*ssa.UnOp); ok && ld.Op == token.MUL {
		if g, ok := ld.X.(*ssa.Global); ok && isErrorType(ld.Type()) && g.Pkg != nil {
			return true
		}
	}
	return false
}

// cellHoldsParam: cell is an Alloc whose only store is the parameter (a parameter captured by a closure).
func cellHoldsParam(cell ssa.Value, prm *ssa.Parameter) bool {
	al, ok := cell.(*ssa.Alloc)
	if !ok {
		return false
	}
	for _, rf := range *al.Referrers() {
		if st, ok := rf.(*ssa.Store); ok && st.Addr == ssa.Value(al) {
			return st.Val == ssa.Value(prm)
		}
	}
	return false
}

func (pc *pairCtx) isPublish(c ssa.CallInstruction, k *resKind, a ssa.Value) bool {
	_, ref := callRef(c)
	pub := false
	if ref != "" && inSet(ref, k.publish) {
		pub = true
	} else if k.resultFunc && a != nil && staticCallee(c) == nil && !c.Common().IsInvoke() {
		pub = valueFromCall(c.Common().Value, a, 0)
	}
	if !pub {
		return false
	}
	// publishers that take the operation's error (finishWriteFile(file, name, writeErr), finalize(op, opErr), finalize(err))
	// discard the output when that error is non-nil: a call whose error argument is certainly non-nil does not publish.
	for _, arg := range c.Common().Args {
		if isErrorType(arg.Type()) {
			if classifyErr(arg, c, nil, 0) == errNonNil {
				return false
			}
			break
		}
	}
	return true
}

// runPair analyses every acquisition site of every kind.
func (pc *pairCtx) runPair(kinds []resKind) {
	p, r := pc.c.P, pc.c.R
	for ki := range kinds {
		k := &kinds[ki]
		sites := 0
		for _, fn := range p.Funcs {
			fn := fn
			n := 0
			eachInstr(fn, func(_ *ssa.BasicBlock, _ int, i ssa.Instruction) {
				call, ok := i.(*ssa.Call)
				if !ok {
					return
				}
				_, ref := callRef(call)
				if ref == "" || !inSet(ref, k.acquire) {
					return
				}
				n++
				sites++
				pc.checkSite(fn, call, ref, n, k)
			})
		}
		if sites == 0 && !pc.flagOnly {
			r.Bad(pc.rule+".R1", k.name, "anchor", "", "UNRESOLVED-ANCHOR: no call site of "+strings.Join(k.acquire, " | ")+" found")
		}
	}
}

func (pc *pairCtx) checkSite(fn *ssa.Function, a *ssa.Call, ref string, ord int, k *resKind) {
	p, r := pc.c.P, pc.c.R
	fid := FuncID(fn)
	owner := inSet(FuncID(rootFunc(fn)), k.owners)
	construct := fmt.Sprintf("%s#%d[%s]", ref, ord, k.name)
	rule1 := pc.rule + ".R1"
	if pc.r1 != "" {
		rule1 = pc.r1
	}

	// facts
	failEdges := map[Edge]bool{}
	for _, e := range errorResults(a) {
		for _, ed := range nilCheckEdges(e, false) {
			failEdges[ed] = true
		}
	}
	// `return acquire(...)` tail call in an owner: nothing to check here
	genI := map[ssa.Instruction]bool{}
	deferPublishers := []*ssa.Defer{}
	eachInstr(fn, func(_ *ssa.BasicBlock, _ int, i ssa.Instruction) {
		switch x := i.(type) {
		case *ssa.Defer:
			if pc.isDisposal(x, k, a) {
				genI[i] = true
				if pc.isPublish(x, k, a) {
					deferPublishers = append(deferPublishers, x)
				}
				return
			}
			var body *ssa.Function
			if mc, ok := x.Call.Value.(*ssa.MakeClosure); ok {
				body = mc.Fn.(*ssa.Function)
			} else if f := staticCallee(x); f != nil && isSubject(f) {
				body = f
			}
			if body != nil {
				ds := pc.disposalsIn(body, k, a, 2, map[*ssa.Function]bool{})
				if len(ds) > 0 {
					genI[i] = true
					for _, d := range ds {
						if pc.isPublish(d, k, a) {
							deferPublishers = append(deferPublishers, x)
							break
						}
					}
				}
			}
		case *ssa.Call:
			if x == a {
				return
			}
			if pc.isDisposal(x, k, a) {
				genI[i] = true
				return
			}
			// a module callee that disposes on every path (e.g. helper wrapping cleanup)
			if f := staticCallee(x); f != nil && isSubject(f) {
				if ds := pc.disposalsIn(f, k, nil, 1, map[*ssa.Function]bool{}); len(ds) > 0 && (pc.calleeDisposesArg(x, a, f, ds) || f.Parent() == fn) {
					genI[i] = true
				}
			}
		}
	})
	if pc.flagOnly {
		for di, d := range deferPublishers {
			pc.checkFlag(fn, a, d, k, fmt.Sprintf("%s defer#%d", construct, di+1))
		}
		return
	}
	genE := map[Edge][]string{}
	if !k.noFailEdge {
		for e := range failEdges {
			genE[e] = []string{"safe"}
		}
	}
	if k.exemptFalseParam != "" {
		for _, prm := range fn.Params {
			if prm.Name() == k.exemptFalseParam && isBoolType(prm.Type()) {
				for _, al := range aliasesOf(prm) {
					for _, e := range condEdges(al, false) {
						genE[e] = append(genE[e], "safe", "covered")
					}
				}
			}
		}
	}
	deferGen := map[ssa.Instruction]bool{}
	for i := range genI {
		if _, isDefer := i.(*ssa.Defer); isDefer {
			deferGen[i] = true
		}
	}
	ff := NewFactFlow(fn,
		func(i ssa.Instruction) []string {
			if deferGen[i] {
				return []string{"safe", "covered"} // a registered deferred disposal also covers later acquisitions
			}
			if genI[i] {
				return []string{"safe"}
			}
			return nil
		}, genE,
		func(i ssa.Instruction) []string {
			if i == ssa.Instruction(a) {
				return []string{"safe?covered"}
			}
			return nil
		}, []string{"safe"})

	bad := 0
	// (1) returns
	for _, ret := range returnsOf(fn) {
		if ff.Holds(ret, "safe") {
			continue
		}
		kd, has := returnErrKind(ret)
		if owner && (!has || kd != errNonNil) {
			continue // ownership passes to the caller on success
		}
		if tailCallOf(ret, a) {
			continue // `return acquire(...)`: the result is handed to the caller unchanged
		}
		if !owner && returnsValueFrom(ret, a) {
			r.Bad(rule1, fid, construct+" ownership", posOrFn(p, ret, fn), "the acquired resource ("+k.name+") is returned to the caller but "+fid+" is not in the owners table of that kind: ownership transfer must be listed so that callers are checked")
			bad++
			continue
		}
		r.Bad(rule1, fid, construct+" leak@"+instrLabel(ret), posOrFn(p, ret, fn), "a path from the acquisition to this "+instrLabel(ret)+" neither disposes the resource nor has a deferred disposal registered: "+k.why)
		bad++
	}
	// (2) non-trivial calls while unprotected
	cnt := map[string]int{}
	eachInstr(fn, func(_ *ssa.BasicBlock, _ int, i ssa.Instruction) {
		c, ok := i.(*ssa.Call)
		if !ok || c == a || genI[i] {
			return
		}
		facts, unreachable := ff.At(i)
		if unreachable || facts["safe"] {
			return
		}
		if pc.triv.call(c) || pc.noPanicRule {
			return
		}
		lab := instrLabel(c)
		cnt[lab]++
		r.Bad(rule1, fid, fmt.Sprintf("%s panic-unsafe@%s#%d", construct, lab, cnt[lab]), p.Pos(c.Pos()),
			"this call can run document-processing code or caller-supplied callbacks (logger, reader, writer) while the resource is neither disposed nor covered by a deferred disposal: a panic here skips the cleanup ("+k.why+")")
		bad++
	})
	if bad == 0 {
		w := "disposed directly on every path"
		if len(genI) > 0 {
			w = "every path from the acquisition's success edge registers a deferred disposal (or disposes) before any call that can run processing code or callbacks, and before every return"
		}
		if owner {
			w = "owner: every failure return after the acquisition disposes the resource; success hands it to the caller"
		}
		r.OK(rule1, fid, construct, p.Pos(a.Pos()), w, true)
	}
	// (3) FLAG discipline for deferred publishers
	for di, d := range deferPublishers {
		pc.checkFlag(fn, a, d, k, fmt.Sprintf("%s defer#%d", construct, di+1))
	}
	// (4) a deferred disposal must run on every path through its closure; it may be skipped only under a completion flag
	di := 0
	eachInstr(fn, func(_ *ssa.BasicBlock, _ int, i ssa.Instruction) {
		d, ok := i.(*ssa.Defer)
		if !ok || !genI[i] {
			return
		}
		mc, ok := d.Call.Value.(*ssa.MakeClosure)
		if !ok {
			return
		}
		di++
		pc.checkDeferUnconditional(fn, a, mc.Fn.(*ssa.Function), k, fmt.Sprintf("%s defer#%d unconditional", construct, di))
	})
}

// checkDeferUnconditional: every path through deferred closure cl executes a disposal of kind k, except paths on which a
// captured completion flag is true, where the flag is set (in the acquiring function) only after a successful publish (k.renames).
func (pc *pairCtx) checkDeferUnconditional(fn *ssa.Function, a *ssa.Call, cl *ssa.Function, k *resKind, construct string) {
	p, r := pc.c.P, pc.c.R
	rule := pc.rule + ".R2"
	fid := FuncID(fn)
	genI := map[ssa.Instruction]bool{}
	eachInstr(cl, func(_ *ssa.BasicBlock, _ int, i ssa.Instruction) {
		c, ok := i.(*ssa.Call)
		if !ok {
			return
		}
		if pc.isDisposal(c, k, a) {
			genI[i] = true
			return
		}
		if g := staticCallee(c); g != nil && isSubject(g) {
			if len(pc.disposalsIn(g, k, a, 1, map[*ssa.Function]bool{})) > 0 {
				genI[i] = true
			}
		}
	})
	genE := map[Edge][]string{}
	for _, blk := range cl.Blocks {
		if len(blk.Instrs) == 0 {
			continue
		}
		iff, ok := blk.Instrs[len(blk.Instrs)-1].(*ssa.If)
		if !ok {
			continue
		}
		cond, want := iff.Cond, true
		for {
			if u, ok := cond.(*ssa.UnOp); ok && u.Op == token.NOT {
				cond, want = u.X, !want
				continue
			}
			break
		}
		ld, ok := cond.(*ssa.UnOp)
		if !ok || ld.Op != token.MUL {
			continue
		}
		fv, ok := ld.X.(*ssa.FreeVar)
		if !ok || !isBoolType(fv.Type().(*types.Pointer).Elem()) {
			continue
		}
		if !pc.flagSetOnlyAfterPublish(cellRoot(fv), k) {
			continue
		}
		succ := 0
		if !want {
			succ = 1
		}
		genE[Edge{blk, succ}] = append(genE[Edge{blk, succ}], "disposed")
	}
	ff := NewFactFlow(cl, func(i ssa.Instruction) []string {
		if genI[i] {
			return []string{"disposed"}
		}
		return nil
	}, genE, nil, nil)
	for _, ret := range returnsOf(cl) {
		if !ff.Holds(ret, "disposed") {
			r.Bad(rule, fid, construct, p.Pos(cl.Pos()), "the deferred cleanup can be skipped on a path that is not guarded by a completion flag (for example under a test of the error variable, which is nil while a panic unwinds): the staged resource would be left behind ("+k.why+")")
			return
		}
	}
	r.OK(rule, fid, construct, p.Pos(cl.Pos()), "every path through the deferred closure disposes the resource, or is taken only when a flag set after the successful publish is true", true)
}

// flagSetOnlyAfterPublish: every `flag = true` store is dominated by the success edge of a publishing call of the kind.
func (pc *pairCtx) flagSetOnlyAfterPublish(flag ssa.Value, k *resKind) bool {
	al, ok := flag.(*ssa.Alloc)
	if !ok || len(k.renames) == 0 {
		return false
	}
	fn := al.Parent()
	var pubEdges []Edge
	eachInstr(fn, func(_ *ssa.BasicBlock, _ int, i ssa.Instruction) {
		if c, ok := i.(*ssa.Call); ok {
			if _, ref := callRef(c); inSet(ref, k.renames) {
				e, _ := successEdges(c)
				pubEdges = append(pubEdges, e...)
			}
		}
	})
	trues, good := 0, 0
	for _, rf := range *al.Referrers() {
		st, ok := rf.(*ssa.Store)
		if !ok || st.Addr != ssa.Value(al) {
			continue
		}
		cst, isC := st.Val.(*ssa.Const)
		if !isC || cst.Value == nil || cst.Value.Kind() != constant.Bool {
			return false
		}
		if !constant.BoolVal(cst.Value) {
			continue
		}
		trues++
		for _, e := range pubEdges {
			if edgeDominates(e, st.Block()) {
				good++
				break
			}
		}
	}
	// stores inside closures are not accepted
	for _, rf := range *al.Referrers() {
		if mc, ok := rf.(*ssa.MakeClosure); ok {
			cf := mc.Fn.(*ssa.Function)
			for bi, b := range mc.Bindings {
				if b != ssa.Value(al) {
					continue
				}
				bad := false
				eachInstr(cf, func(_ *ssa.BasicBlock, _ int, i ssa.Instruction) {
					if st, ok := i.(*ssa.Store); ok && st.Addr == ssa.Value(cf.FreeVars[bi]) {
						bad = true
					}
				})
				if bad {
					return false
				}
			}
		}
	}
	return trues > 0 && trues == good
}

// calleeDisposesArg: call x hands (a value derived from) the acquired resource to callee f as parameter j, and one of f's
// disposal calls ds operates on that parameter (not on some other resource of the same kind).
func (pc *pairCtx) calleeDisposesArg(x *ssa.Call, a ssa.Value, f *ssa.Function, ds []ssa.CallInstruction) bool {
	if !pc.passesArg(x, a) {
		return false
	}
	for j, arg := range x.Call.Args {
		if j >= len(f.Params) {
			break
		}
		if !valueFromCall(arg, a, 0) {
			if fa, ok := arg.(*ssa.UnOp); !ok || fa.Op != token.MUL {
				continue
			}
		}
		prm := f.Params[j]
		for _, d := range ds {
			if d.Parent() != f {
				return true // disposal deeper in the call chain: not tracked further
			}
			for _, da := range d.Common().Args {
				if derivesFrom(da, prm, 0, map[ssa.Value]bool{}) || valueFromParam(da, prm) {
					return true
				}
			}
		}
	}
	return false
}

// valueFromParam: v is the parameter or a load of its spill cell / a field of it.
func valueFromParam(v ssa.Value, prm *ssa.Parameter) bool {
	for i := 0; i < 6 && v != nil; i++ {
		if v == ssa.Value(prm) {
			return true
		}
		switch x := v.(type) {
		case *ssa.UnOp:
			if al, ok := x.X.(*ssa.Alloc); ok {
				for _, rf := range *al.Referrers() {
					if st, ok := rf.(*ssa.Store); ok && st.Addr == ssa.Value(al) && st.Val == ssa.Value(prm) {
						return true
					}
				}
				return false
			}
			v = x.X
		case *ssa.FieldAddr:
			v = x.X
		case *ssa.Field:
			v = x.X
		default:
			return false
		}
	}
	return false
}

// passesArg: call x receives (a value derived from) a's results as an argument.
func (pc *pairCtx) passesArg(x *ssa.Call, a ssa.Value) bool {
	for _, arg := range x.Call.Args {
		if valueFromCall(arg, a, 0) {
			return true
		}
		// field of the acquired struct / struct built from it
		if fa, ok := arg.(*ssa.UnOp); ok && fa.Op == token.MUL {
			if f, ok := fa.X.(*ssa.FieldAddr); ok {
				if ld, ok := f.X.(*ssa.Alloc); ok {
					_ = ld
					return true
				}
			}
		}
	}
	return false
}

func tailCallOf(ret *ssa.Return, a ssa.Value) bool {
	for _, res := range ret.Results {
		if res == a {
			return true
		}
		if ex, ok := res.(*ssa.Extract); ok && ex.Tuple == a {
			return true
		}
	}
	return false
}

func returnsValueFrom(ret *ssa.Return, a ssa.Value) bool {
	for _, res := range ret.Results {
		if isErrorType(res.Type()) {
			continue
		}
		if valueFromCall(res, a, 0) {
			return true
		}
	}
	return false
}

// checkFlag: the publishing call(s) inside deferred call d must be keyed on a completion flag.
func (pc *pairCtx) ruleR2() string {
	if pc.r2 != "" {
		return pc.r2
	}
	return pc.rule + ".R2"
}

func (pc *pairCtx) checkFlag(fn *ssa.Function, a *ssa.Call, d *ssa.Defer, k *resKind, construct string) {
	p, r := pc.c.P, pc.c.R
	fid := FuncID(fn)
	rule := pc.ruleR2()
	mc, ok := d.Call.Value.(*ssa.MakeClosure)
	if !ok {
		r.Bad(rule, fid, construct, p.Pos(d.Pos()), "a publishing call is deferred directly: it runs on every exit including a panic unwinding the function, so a partial output can be published under its final name")
		return
	}
	cl := mc.Fn.(*ssa.Function)
	var pubs []ssa.CallInstruction
	eachInstr(cl, func(_ *ssa.BasicBlock, _ int, i ssa.Instruction) {
		if c, ok := i.(ssa.CallInstruction); ok && pc.isPublish(c, k, a) {
			pubs = append(pubs, c)
		}
	})
	if len(pubs) == 0 {
		// publisher reached through a callee of the closure: treat the call to that callee as the publishing point
		eachInstr(cl, func(_ *ssa.BasicBlock, _ int, i ssa.Instruction) {
			if c, ok := i.(*ssa.Call); ok {
				if f := staticCallee(c); f != nil && isSubject(f) {
					for _, dd := range pc.disposalsIn(f, k, a, 1, map[*ssa.Function]bool{}) {
						if pc.isPublish(dd, k, a) {
							pubs = append(pubs, c)
							break
						}
					}
				}
			}
		})
	}
	for pi, pub := range pubs {
		cons := fmt.Sprintf("%s publish#%d", construct, pi+1)
		flag, why := flagGuarding(pub)
		if flag == nil {
			r.Bad(rule, fid, cons, p.Pos(pub.Pos()), "the publishing call "+instrLabel(pub)+" in this deferred closure is not guarded by a completion flag ("+why+"): when a panic unwinds "+fid+" the error variable is still nil, so the partially written output is published under its final name")
			continue
		}
		if msg := flagDiscipline(pc, fn, flag); msg != "" {
			r.Bad(rule, fid, cons, p.Pos(pub.Pos()), "completion flag misuse: "+msg)
			continue
		}
		r.OK(rule, fid, cons, p.Pos(pub.Pos()), "publish is control-dependent on a captured bool that is false initially and only set true after the last call that can fail or panic", true)
	}
}

// flagGuarding finds the captured bool cell (in the parent function) whose `true` value is necessary to reach pub.
func flagGuarding(pub ssa.CallInstruction) (ssa.Value, string) {
	b := pub.Block()
	cl := b.Parent()
	for _, blk := range cl.Blocks {
		if len(blk.Instrs) == 0 {
			continue
		}
		iff, ok := blk.Instrs[len(blk.Instrs)-1].(*ssa.If)
		if !ok {
			continue
		}
		// which polarity of which captured bool?
		cond := iff.Cond
		want := true
		for {
			if u, ok := cond.(*ssa.UnOp); ok && u.Op == token.NOT {
				cond = u.X
				want = !want
				continue
			}
			break
		}
		ld, ok := cond.(*ssa.UnOp)
		if !ok || ld.Op != token.MUL {
			continue
		}
		fv, ok := ld.X.(*ssa.FreeVar)
		if !ok || !isBoolType(fv.Type().(*types.Pointer).Elem()) {
			continue
		}
		// edge on which flag == true
		succ := 0
		if !want {
			succ = 1
		}
		if edgeDominates(Edge{blk, succ}, b) {
			return cellRoot(fv), ""
		}
	}
	return nil, "no branch on a captured bool dominates it; a test of the error variable does not count"
}

// flagDiscipline: the flag cell is false initially and every `true` store is followed by no call that can fail or panic.
func flagDiscipline(pc *pairCtx, fn *ssa.Function, flag ssa.Value) string {
	al, ok := flag.(*ssa.Alloc)
	if !ok {
		return "flag is not a local variable of the function that acquired the resource"
	}
	owner := al.Parent()
	msg := ""
	trues := 0
	var visit func(f *ssa.Function, cell ssa.Value)
	visit = func(f *ssa.Function, cell ssa.Value) {
		eachInstr(f, func(_ *ssa.BasicBlock, _ int, i ssa.Instruction) {
			switch x := i.(type) {
			case *ssa.Store:
				if x.Addr != cell {
					return
				}
				cst, isC := x.Val.(*ssa.Const)
				if !isC || cst.Value == nil || cst.Value.Kind() != constant.Bool {
					if msg == "" {
						msg = "flag is assigned a computed value at " + pc.c.P.Pos(x.Pos())
					}
					return
				}
				if !constant.BoolVal(cst.Value) {
					return
				}
				trues++
				if f != owner {
					if msg == "" {
						msg = "flag is set inside a closure at " + pc.c.P.Pos(x.Pos())
					}
					return
				}
				for _, after := range instrsAfter(x) {
					if c, ok := after.(*ssa.Call); ok && !pc.triv.call(c) {
						if msg == "" {
							msg = fmt.Sprintf("flag set to true at %s but %s can still run afterwards (%s): a failure or panic there would be committed", pc.c.P.Pos(x.Pos()), instrLabel(c), pc.c.P.Pos(c.Pos()))
						}
						return
					}
				}
			case *ssa.MakeClosure:
				for bi, b := range x.Bindings {
					if b == cell {
						cf := x.Fn.(*ssa.Function)
						visit(cf, cf.FreeVars[bi])
					}
				}
			}
		})
	}
	visit(owner, al)
	if msg == "" && trues == 0 {
		msg = "flag is never set to true"
	}
	return msg
}

func init() {
	register(&Check{
		ID:          "C01",
		Run:         runC01,
		Explanation: "Decides structural necessary conditions of 'a failed or aborted operation never damages or leaves files': (R1 PAIR) for every call site of a staging acquisition (api.openStagedOutput*, cli.streamInOutForOperation, cli.readSeekerFromStdin, cli.create*StreamOutput, pdfcpu.createWriteFile/createStagedFile/openStagedFile, the raw createTemp/openExclusive operations, the cut writer's createTemp): on every CFG path from the acquisition's success edge a disposal (cleanup/commit/finalize/finish*/remove) is executed or registered with defer before every return and before every call that can run document-processing code or caller-supplied callbacks (so a panic cannot skip it); functions that hand the resource to their caller are listed as owners and must dispose on every failure return; (R2 FLAG) a publishing call (commit / finishWriteFile / finalize) inside a deferred closure must be control-dependent on a captured local bool that starts false and is set true only after the last call that can fail or panic — a test of the error variable is rejected because a panic leaves it nil; (R3 WMC) destructive filesystem primitives (os.Create/WriteFile/Truncate/OpenFile with a write flag/Rename/Remove/RemoveAll/Chmod/CreateTemp/MkdirTemp/Mkdir*/Link/Symlink, fileutil.ReplaceFile/RemoveFile) and calls through operation-table fields bound to them occur only in the functions of the staging-layer table (one reason per entry) or the not-a-document-output table; (R4) inside the disposal routines every failure return after the temp exists passes the temp removal. R1 also covers the attachment-extraction reservations: reserveAttachmentOutputs hands the list of O_EXCL reservation files created so far back to its caller on every return after a creation (also with an error), and the caller releases it on the error path and by defer. (R4) inside the disposal routines themselves (stagedOutput.commit and cleanup, finishStagedFile, streamInOutFinalizer.finalize, temporaryInput.finalize) every return whose error can be non-nil has passed the removal of the staged file on every path; returns of a just-tested-nil error and constant nil are exempt (sibling agreement: 'error means the staged file is removed'). NOT decided: that untouched bytes stay unchanged (follows from R3 but is not observed), OS call behaviour, multi-output policy of split/cut (earlier completed outputs are kept by documented design), error texts.",
		Rules: []string{
			"C01.R1 PAIR: acquisition -> disposal on all exits, deferred before any call that can panic",
			"C01.R2 FLAG: deferred publish keyed on a completion flag with set-last discipline",
			"C01.R3 WMC: destructive filesystem primitives only in the staging layer table",
			"C01.R4 MPT: disposal routines remove the temp on every failure return",
			"C01.R5 shape: the captured finalizer variable of a stream operation is assigned once (registered temporaries are not dropped)",
		},
		Assumptions: []string{"std-library calls (os, io, fmt, errors, filepath) do not panic", "operation tables are replaced only in tests", "POSIX semantics of O_EXCL / rename / remove"},
		Technique:   "typestate (acquire/dispose) must-dataflow on SSA CFGs with failure-edge generation and deferred-closure resolution; completion-flag control-dependence + set-last discipline; who-may-call tables for destructive primitives and operation-table fields; call-triviality fixpoint over the call graph",
		Note:        "Decides the code-shape clauses only. Panic sources are over-approximated as 'any call that can reach module code or a caller-supplied callback'. Genuine violations found on the pinned tree were repaired in /repo (known_findings.json: fixed entries), including the 33 CLI stream wrappers that first were recorded as known findings.",
	})
}

func runC01(c *Ctx) {
	r := c.R
	r.MinInst["C01.R1"] = 100
	r.MinInst["C01.R2"] = 40
	r.MinInst["C01.R3"] = 80
	pc := &pairCtx{c: c, triv: &triviality{cg: c.CG(), memo: map[*ssa.Function]int{}}, rule: "C01"}
	pc.runPair(c01Kinds)
	runFSWMC(c, "C01.R3", nil)
	checkAccumulatorsHandedBack(c)
	checkFinalizeHelpers(c)
	r.MinInst["C01.R4"] = 8
	r.MinInst["C01.R5"] = 1
	checkFinalizerSingleAssignment(c, "C01.R5")
	checkDisposalRoutines(c)
}

// c01Accumulators: functions that create several files in a loop and hand them to the caller as a slice — also on failure, so
// that the caller can remove what was created so far (the caller side is the PAIR kind api-attachment-reservations).
var c01Accumulators = map[string]string{
	"pkg/api.reserveAttachmentOutputs": "os.OpenFile",
}

// checkAccumulatorsHandedBack (C01.R1): every return reachable after a creation returns the accumulated slice, not nil.
func checkAccumulatorsHandedBack(c *Ctx) {
	checkAccumulators(c, "C01.R1", c01Accumulators, nil)
}

// checkAccumulators: every return reachable after a creation hands the accumulated slice back — or, where a cleanup
// function is named, has passed a call of it on the accumulated slice.
func checkAccumulators(c *Ctx, rule string, table map[string]string, cleanup map[string]string) {
	p, r := c.P, c.R
	for fid, create := range table {
		fn := p.Func(fid)
		if fn == nil {
			r.Bad(rule, fid, "accumulator", "", "UNRESOLVED-ANCHOR")
			continue
		}
		var createBlocks []*ssa.BasicBlock
		eachInstr(fn, func(b *ssa.BasicBlock, _ int, i ssa.Instruction) {
			if _, ref := callRef(i); ref == create {
				createBlocks = append(createBlocks, b)
			}
		})
		if len(createBlocks) == 0 {
			r.Bad(rule, fid, "accumulator", p.Pos(fn.Pos()), "UNRESOLVED-ANCHOR: no call of "+create)
			continue
		}
		after := map[*ssa.BasicBlock]bool{}
		for _, b := range createBlocks {
			for x := range reachableBlocks(b) {
				after[x] = true
			}
		}
		var derivesSlice func(v ssa.Value, d int) bool
		derivesSlice = func(v ssa.Value, d int) bool {
			if d > 8 {
				return false
			}
			switch x := v.(type) {
			case *ssa.MakeSlice:
				return true
			case *ssa.Phi:
				for _, e := range x.Edges {
					if derivesSlice(e, d+1) {
						return true
					}
				}
			case *ssa.Call:
				if b, ok := x.Call.Value.(*ssa.Builtin); ok && b.Name() == "append" {
					return derivesSlice(x.Call.Args[0], d+1)
				}
			case *ssa.Slice:
				return derivesSlice(x.X, d+1)
			case *ssa.ChangeType:
				return derivesSlice(x.X, d+1)
			case *ssa.UnOp:
				// a named result (or another local cell): what is stored into it
				if al, ok := x.X.(*ssa.Alloc); ok && x.Op == token.MUL {
					// the value a deferred cleanup sees is the one stored last before the return sequence
					blk := x.Block()
					for k := len(blk.Instrs) - 1; k >= 0; k-- {
						if blk.Instrs[k] == ssa.Instruction(x) {
							for m := k - 1; m >= 0; m-- {
								if st, ok := blk.Instrs[m].(*ssa.Store); ok && st.Addr == ssa.Value(al) {
									return derivesSlice(st.Val, d+1)
								}
							}
							break
						}
					}
					if st, _ := reachingStore(x); st != nil {
						return derivesSlice(st.Val, d+1)
					}
					for _, rf := range *al.Referrers() {
						if st, ok := rf.(*ssa.Store); ok && st.Addr == ssa.Value(al) && derivesSlice(st.Val, d+1) {
							return true
						}
					}
				}
			}
			return false
		}
		cleaned := map[*ssa.BasicBlock]bool{}
		if cl := cleanup[fid]; cl != "" {
			eachInstr(fn, func(b *ssa.BasicBlock, _ int, i ssa.Instruction) {
				if cc, ref := callRef(i); cc != nil && ref == cl && len(cc.Common().Args) > 0 && derivesSlice(cc.Common().Args[0], 0) {
					cleaned[b] = true
				}
			})
		}
		n := 0
		for _, ret := range returnsOf(fn) {
			if !after[ret.Block()] || len(ret.Results) == 0 {
				continue
			}
			n++
			pos := posOrFn(p, ret, fn)
			inlineCleanup := false
			for b := range cleaned {
				if b == ret.Block() || b.Dominates(ret.Block()) {
					inlineCleanup = true
				}
			}
			switch {
			case derivesSlice(ret.Results[0], 0):
				r.OK(rule, fid, fmt.Sprintf("accumulator handed back@return#%d", n), pos, "the slice of files created so far is returned (also with an error), so the caller (or a deferred cleanup reading the result) can remove them", true)
			case inlineCleanup:
				r.OK(rule, fid, fmt.Sprintf("accumulator handed back@return#%d", n), pos, "the files created so far were handed to "+cleanup[fid]+" before this return", true)
			default:
				r.Bad(rule, fid, fmt.Sprintf("accumulator handed back@return#%d", n), pos, "this return is reachable after files were created but neither hands the accumulated list back (a deferred cleanup reading the result sees nil) nor has passed a cleanup of it: the files created so far stay behind")
			}
		}
	}
}

// runFSWMC: closed world of destructive primitives. onlyCats restricts to categories (nil = all).
func runFSWMC(c *Ctx, rule string, onlyCats map[string]bool) {
	p, r := c.P, c.R
	refs := collectFSRefs(p)
	refs = append(refs, collectFSFieldCalls(p, c.CG())...)
	used := map[string]bool{}
	cnt := map[string]int{}
	for _, ref := range refs {
		root := FuncID(ref.root)
		for _, cat := range strings.Split(ref.cat, "+") {
			if onlyCats != nil && !onlyCats[cat] {
				continue
			}
			key := ref.prim + ":" + cat
			cnt[root+key]++
			construct := fmt.Sprintf("%s#%d", key, cnt[root+key])
			al, ok := c01AllowFS[root]
			if ok && inSet(cat, strings.Fields(al.cats)) {
				used[root] = true
				r.OK(rule, root, construct, p.Pos(ref.instr.Pos()), "allowed: "+al.reason, false)
				continue
			}
			r.Bad(rule, root, construct, p.Pos(ref.instr.Pos()), fmt.Sprintf("%s (%s) is used outside the staging-layer table: code here can truncate, overwrite, rename, delete or create files without going through the staged-output protocol", ref.prim, cat))
		}
	}
	if onlyCats == nil {
		var stale []string
		for k, al := range c01AllowFS {
			if !used[k] && !strings.HasPrefix(al.reason, "[optional]") {
				stale = append(stale, k)
			}
		}
		sort.Strings(stale)
		for _, k := range stale {
			r.Bad(rule, k, "table-entry", "", "UNRESOLVED-ANCHOR: allow-table entry matches no destructive primitive use in /repo (function renamed or removed?)")
		}
	}
}
