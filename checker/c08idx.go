package main

import (
	"go/token"

	"golang.org/x/tools/go/ssa"
)

// classifyIndex decides whether indexing x[idx] (x of type types.Array, length controlled by the document) is proven in range.
// Returns "" when proven, else a reason.
//
// Accepted proofs (all syntactic on SSA, sound):
//   P1  idx is a constant k and a dominating edge establishes len(x) > k, len(x) >= k+1, len(x) == n (n > k), len(x) != n false edge ...
//   P2  idx is the induction value of a `range x` loop over the same x (rangeindex phi bounded by len(x))
//   P3  a dominating edge establishes idx < len(x) (or len(x) > idx) for the same x and idx values
//   P4  idx is `len(x) - c` with a dominating len(x) >= c / len(x) > c-1 ... (last element idiom)
func classifyIndex(fn *ssa.Function, at ssa.Instruction, x, idx ssa.Value) string {
	blk := at.Block()
	// collect length facts about x that dominate blk: (op, const) pairs for len(x) OP k on the taken edge
	type lenFact struct {
		op token.Token
		k  int64
	}
	var facts []lenFact
	var idxBound bool
	sameX := func(v ssa.Value) bool { return v == x || sameValue(v, x) || valueKey(v) == valueKey(x) }
	isLenOfX := func(v ssa.Value) bool {
		call, ok := v.(*ssa.Call)
		if !ok {
			return false
		}
		bi, ok := call.Call.Value.(*ssa.Builtin)
		return ok && bi.Name() == "len" && sameX(call.Call.Args[0])
	}
	eachInstr(fn, func(_ *ssa.BasicBlock, _ int, i ssa.Instruction) {
		b, ok := i.(*ssa.BinOp)
		if !ok {
			return
		}
		switch b.Op {
		case token.EQL, token.NEQ, token.LSS, token.LEQ, token.GTR, token.GEQ:
		default:
			return
		}
		for _, want := range []bool{true, false} {
			for _, e := range condEdges(b, want) {
				if !edgeDominates(e, blk) {
					continue
				}
				op := b.Op
				if !want {
					op = negateOp(op)
				}
				// len(x) OP const
				if isLenOfX(b.X) {
					if k, ok := constInt(b.Y); ok {
						facts = append(facts, lenFact{op, k})
					}
					if b.Y == idx && (op == token.GTR) {
						idxBound = true
					}
				}
				if isLenOfX(b.Y) {
					if k, ok := constInt(b.X); ok {
						facts = append(facts, lenFact{mirrorOp(op), k})
					}
					if b.X == idx && (op == token.LSS) {
						idxBound = true
					}
				}
			}
		}
	})
	minLen := int64(0)
	for _, f := range facts {
		switch f.op {
		case token.EQL:
			if f.k > minLen {
				minLen = f.k
			}
		case token.GTR:
			if f.k+1 > minLen {
				minLen = f.k + 1
			}
		case token.GEQ:
			if f.k > minLen {
				minLen = f.k
			}
		}
	}
	if k, ok := constInt(idx); ok {
		if k >= 0 && k < minLen {
			return ""
		}
		return "constant index without a dominating length check"
	}
	if idxBound {
		return ""
	}
	// P2: range loop induction variable over the same array
	if phiOrAdd := rangeInduction(idx); phiOrAdd != nil {
		if sameX(phiOrAdd) {
			return ""
		}
		return "index is the induction variable of a range over a different array"
	}
	// P4: len(x) - c
	if sub, ok := idx.(*ssa.BinOp); ok && sub.Op == token.SUB && isLenOfX(sub.X) {
		if c, ok := constInt(sub.Y); ok && c >= 1 && minLen >= c {
			return ""
		}
	}
	return "variable index without a dominating bound"
}

func negateOp(op token.Token) token.Token {
	switch op {
	case token.EQL:
		return token.NEQ
	case token.NEQ:
		return token.EQL
	case token.LSS:
		return token.GEQ
	case token.LEQ:
		return token.GTR
	case token.GTR:
		return token.LEQ
	case token.GEQ:
		return token.LSS
	}
	return op
}

func mirrorOp(op token.Token) token.Token {
	switch op {
	case token.LSS:
		return token.GTR
	case token.LEQ:
		return token.GEQ
	case token.GTR:
		return token.LSS
	case token.GEQ:
		return token.LEQ
	}
	return op
}

// rangeInduction: idx is the rotated range-index value (t = phi[-1, t+1]; t+1 < len(X)) -> returns X
func rangeInduction(idx ssa.Value) ssa.Value {
	add, ok := idx.(*ssa.BinOp)
	if !ok || add.Op != token.ADD {
		return nil
	}
	phi, ok := add.X.(*ssa.Phi)
	if !ok || phi.Comment != "rangeindex" {
		return nil
	}
	// the loop condition: add < len(X)
	for _, rf := range *add.Referrers() {
		cmp, ok := rf.(*ssa.BinOp)
		if !ok || cmp.Op != token.LSS || cmp.X != ssa.Value(add) {
			continue
		}
		if call, ok := cmp.Y.(*ssa.Call); ok {
			if bi, ok := call.Call.Value.(*ssa.Builtin); ok && bi.Name() == "len" {
				return call.Call.Args[0]
			}
		}
	}
	return nil
}
