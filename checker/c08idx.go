package main

import (
	"sort"
	"fmt"
	"go/token"
	"go/types"
	"strings"

	"golang.org/x/tools/go/ssa"
)

// classifyIndex decides whether indexing x[idx] (x of type types.Array, length controlled by the document) is proven in range.
// Returns "" when proven, else a reason.
//
// Accepted proofs (all syntactic on SSA, sound):
//   P1  idx is a constant k and a dominating edge establishes len(x) > k, len(x) >= k+1, len(x) == n (n > k), len(x) != n false edge ...
//   P2  idx is the induction value of a `range x` loop over the same x (rangeindex phi bounded by len(x))
//   P3  a dominating edge establishes idx < len(x) (or len(x) > idx) for the same x and idx values
//   P4  idx is `len(x) - c` with a dominating len(x) >= c / len(x) > c-1 ... (last element idiom)
func classifyIndex(fn *ssa.Function, at ssa.Instruction, x, idx ssa.Value) string {
	blk := at.Block()
	// collect length facts about x that dominate blk: (op, const) pairs for len(x) OP k on the taken edge
	type lenFact struct {
		op token.Token
		k  int64
	}
	var facts []lenFact
	var idxBound bool
	sameX := func(v ssa.Value) bool { return v == x || sameValue(v, x) || valueKey(v) == valueKey(x) }
	isLenOfX := func(v ssa.Value) bool {
		call, ok := v.(*ssa.Call)
		if !ok {
			return false
		}
		bi, ok := call.Call.Value.(*ssa.Builtin)
		return ok && bi.Name() == "len" && sameX(call.Call.Args[0])
	}
	eachInstr(fn, func(_ *ssa.BasicBlock, _ int, i ssa.Instruction) {
		b, ok := i.(*ssa.BinOp)
		if !ok {
			return
		}
		switch b.Op {
		case token.EQL, token.NEQ, token.LSS, token.LEQ, token.GTR, token.GEQ:
		default:
			return
		}
		for _, want := range []bool{true, false} {
			for _, e := range condEdges(b, want) {
				if !edgeDominates(e, blk) {
					continue
				}
				op := b.Op
				if !want {
					op = negateOp(op)
				}
				// len(x) OP const
				if isLenOfX(b.X) {
					if k, ok := constInt(b.Y); ok {
						facts = append(facts, lenFact{op, k})
					}
					if b.Y == idx && (op == token.GTR) {
						idxBound = true
					}
				}
				if isLenOfX(b.Y) {
					if k, ok := constInt(b.X); ok {
						facts = append(facts, lenFact{mirrorOp(op), k})
					}
					if b.X == idx && (op == token.LSS) {
						idxBound = true
					}
				}
			}
		}
	})
	minLen := int64(0)
	for _, f := range facts {
		switch f.op {
		case token.EQL:
			if f.k > minLen {
				minLen = f.k
			}
		case token.GTR:
			if f.k+1 > minLen {
				minLen = f.k + 1
			}
		case token.GEQ:
			if f.k > minLen {
				minLen = f.k
			}
		}
	}
	if k, ok := constInt(idx); ok {
		if k >= 0 && k < minLen {
			return ""
		}
		return "constant index without a dominating length check"
	}
	if idxBound {
		return ""
	}
	// P2: range loop induction variable over the same array
	if phiOrAdd := rangeInduction(idx); phiOrAdd != nil {
		if sameX(phiOrAdd) {
			return ""
		}
		return "index is the induction variable of a range over a different array"
	}
	// P4: len(x) - c
	if sub, ok := idx.(*ssa.BinOp); ok && sub.Op == token.SUB && isLenOfX(sub.X) {
		if c, ok := constInt(sub.Y); ok && c >= 1 && minLen >= c {
			return ""
		}
	}
	return "variable index without a dominating bound"
}

func negateOp(op token.Token) token.Token {
	switch op {
	case token.EQL:
		return token.NEQ
	case token.NEQ:
		return token.EQL
	case token.LSS:
		return token.GEQ
	case token.LEQ:
		return token.GTR
	case token.GTR:
		return token.LEQ
	case token.GEQ:
		return token.LSS
	}
	return op
}

func mirrorOp(op token.Token) token.Token {
	switch op {
	case token.LSS:
		return token.GTR
	case token.LEQ:
		return token.GEQ
	case token.GTR:
		return token.LSS
	case token.GEQ:
		return token.LEQ
	}
	return op
}

// rangeInduction: idx is the rotated range-index value (t = phi[-1, t+1]; t+1 < len(X)) -> returns X
func rangeInduction(idx ssa.Value) ssa.Value {
	add, ok := idx.(*ssa.BinOp)
	if !ok || add.Op != token.ADD {
		return nil
	}
	phi, ok := add.X.(*ssa.Phi)
	if !ok || phi.Comment != "rangeindex" {
		return nil
	}
	// the loop condition: add < len(X)
	for _, rf := range *add.Referrers() {
		cmp, ok := rf.(*ssa.BinOp)
		if !ok || cmp.Op != token.LSS || cmp.X != ssa.Value(add) {
			continue
		}
		if call, ok := cmp.Y.(*ssa.Call); ok {
			if bi, ok := call.Call.Value.(*ssa.Builtin); ok && bi.Name() == "len" {
				return call.Call.Args[0]
			}
		}
	}
	return nil
}

// ---------------- C08.R3: sibling-indexed slices ----------------
//
// A site x[i] where i is the index of a `range y` loop over a different slice y is in range only if len(x) >= len(y).
// Accepted proofs:
//   S1  x was made with make(T, len(y)) (or make(T, len(y)+c))
//   S2  a dominating edge establishes len(x) == len(y) or len(x) >= len(y) (any spelling, either operand order)
//   S3  x and y are loads through the same pointer (range *a ... (*a)[i])
//   S4  x and y are parameters: the obligation moves to every call site, where the arguments must satisfy S1/S2 (a nil
//       argument for x is accepted when the callee tests x != nil before the site); a length-preserving call
//       (c08LenPreserving) on the y argument is looked through.
//   S5  a dominating edge establishes i < len(x)

// c08LenPreserving: functions returning a slice with the length of the given parameter (confirmed by reading).
var c08LenPreserving = map[string]int{
	"pkg/pdfcpu.normalizeStreamFilterArray": 2,
}

func lenArgOf(v ssa.Value) ssa.Value {
	call, ok := v.(*ssa.Call)
	if !ok {
		return nil
	}
	if bi, ok := call.Call.Value.(*ssa.Builtin); ok && bi.Name() == "len" {
		return call.Call.Args[0]
	}
	return nil
}

func sameSlice(a, b ssa.Value) bool {
	if a == b || sameValue(a, b) {
		return true
	}
	la, ok1 := a.(*ssa.UnOp)
	lb, ok2 := b.(*ssa.UnOp)
	if ok1 && ok2 && la.Op == token.MUL && lb.Op == token.MUL && la.X == lb.X {
		// two loads through the same pointer value; no store of a new slice header through it in the function
		clobber := false
		eachInstr(la.Parent(), func(_ *ssa.BasicBlock, _ int, i ssa.Instruction) {
			if st, ok := i.(*ssa.Store); ok && st.Addr == la.X {
				clobber = true
			}
		})
		return !clobber
	}
	// comma-ok / type assertion aliases of the same extracted value
	return false
}

// lenRelationAt: does a dominating edge (w.r.t. block blk) establish len(x) >= len(y)?
func lenRelationAt(fn *ssa.Function, blk *ssa.BasicBlock, x, y ssa.Value) bool {
	found := false
	eachInstr(fn, func(_ *ssa.BasicBlock, _ int, i ssa.Instruction) {
		b, ok := i.(*ssa.BinOp)
		if !ok || found {
			return
		}
		switch b.Op {
		case token.EQL, token.NEQ, token.LSS, token.LEQ, token.GTR, token.GEQ:
		default:
			return
		}
		lx, ly := lenArgOf(b.X), lenArgOf(b.Y)
		if lx == nil || ly == nil {
			return
		}
		var op token.Token
		switch {
		case sameSlice(lx, x) && sameSlice(ly, y):
			op = b.Op // len(x) OP len(y)
		case sameSlice(lx, y) && sameSlice(ly, x):
			op = mirrorOp(b.Op) // len(y) OP len(x)  ==  len(x) mirror(OP) len(y)
		default:
			return
		}
		for _, want := range []bool{true, false} {
			o := op
			if !want {
				o = negateOp(o)
			}
			if o != token.EQL && o != token.GEQ && o != token.GTR {
				continue
			}
			for _, e := range condEdges(b, want) {
				if edgeDominates(e, blk) {
					found = true
				}
			}
		}
	})
	return found
}

func madeWithLenOf(x, y ssa.Value) bool {
	if ct, ok := x.(*ssa.ChangeType); ok {
		x = ct.X
	}
	mk, ok := x.(*ssa.MakeSlice)
	if !ok {
		return false
	}
	l := mk.Len
	if add, ok := l.(*ssa.BinOp); ok && add.Op == token.ADD {
		if _, isC := add.Y.(*ssa.Const); isC {
			l = add.X
		}
	}
	if a := lenArgOf(l); a != nil && sameSlice(a, y) {
		return true
	}
	return false
}

func idxBoundAt(fn *ssa.Function, blk *ssa.BasicBlock, x, idx ssa.Value) bool {
	found := false
	eachInstr(fn, func(_ *ssa.BasicBlock, _ int, i ssa.Instruction) {
		b, ok := i.(*ssa.BinOp)
		if !ok || found {
			return
		}
		var op token.Token
		switch {
		case b.X == idx && lenArgOf(b.Y) != nil && sameSlice(lenArgOf(b.Y), x):
			op = b.Op
		case b.Y == idx && lenArgOf(b.X) != nil && sameSlice(lenArgOf(b.X), x):
			op = mirrorOp(b.Op)
		default:
			return
		}
		for _, want := range []bool{true, false} {
			o := op
			if !want {
				o = negateOp(o)
			}
			if o != token.LSS {
				continue
			}
			for _, e := range condEdges(b, want) {
				if edgeDominates(e, blk) {
					found = true
				}
			}
		}
	})
	return found
}

// nonNilSources: the values v can take, looking through phis, skipping nil constants.
func nonNilSources(v ssa.Value) []ssa.Value {
	seen := map[ssa.Value]bool{}
	var out []ssa.Value
	var walk func(x ssa.Value)
	walk = func(x ssa.Value) {
		if seen[x] {
			return
		}
		seen[x] = true
		switch y := x.(type) {
		case *ssa.Phi:
			for _, e := range y.Edges {
				walk(e)
			}
		case *ssa.Const:
			if !y.IsNil() {
				out = append(out, x)
			}
		default:
			out = append(out, x)
		}
	}
	walk(v)
	return out
}

// checkLenPreserving: every return of a function listed in c08LenPreserving is the parameter itself or its Clone().
func checkLenPreserving(c *Ctx) {
	p, r := c.P, c.R
	for ref, k := range c08LenPreserving {
		var fn *ssa.Function
		for _, f := range p.Funcs {
			if o := f.Object(); o != nil && objRef(o) == ref {
				fn = f
			}
		}
		if fn == nil || k >= len(fn.Params) {
			r.Bad("C08.R3", ref, "length-preserving", "", "function or parameter not found")
			continue
		}
		prm := fn.Params[k]
		var isParamOrClone func(v ssa.Value, d int) bool
		isParamOrClone = func(v ssa.Value, d int) bool {
			if d > 6 {
				return false
			}
			switch x := v.(type) {
			case *ssa.Parameter:
				return x == prm
			case *ssa.TypeAssert:
				return isParamOrClone(x.X, d+1)
			case *ssa.ChangeType:
				return isParamOrClone(x.X, d+1)
			case *ssa.MakeInterface:
				return isParamOrClone(x.X, d+1)
			case *ssa.Phi:
				for _, e := range x.Edges {
					if !isParamOrClone(e, d+1) {
						return false
					}
				}
				return true
			case *ssa.Call:
				if f := staticCallee(x); f != nil && f.Name() == "Clone" && len(x.Call.Args) == 1 {
					return isParamOrClone(x.Call.Args[0], d+1)
				}
			}
			return false
		}
		ok := true
		for _, ret := range returnsOf(fn) {
			if len(ret.Results) != 1 || !isParamOrClone(ret.Results[0], 0) {
				ok = false
			}
		}
		pos := p.Fset.Position(fn.Pos()).String()
		if ok {
			r.OK("C08.R3", ref, "length-preserving", pos, "every return is the "+prm.Name()+" parameter or its Clone()", true)
		} else {
			r.Bad("C08.R3", ref, "length-preserving", pos, "relied on as returning a slice of the same length as "+prm.Name()+", but a return is neither the parameter nor its Clone()")
		}
	}
}

func runC08R3(c *Ctx) {
	p, r := c.P, c.R
	cg := c.CG()
	checkLenPreserving(c)
	for _, fn := range p.Funcs {
		fid := FuncID(fn)
		if !strings.HasPrefix(fid, "pkg/") && !strings.HasPrefix(fid, "internal/") {
			continue
		}
		fn := fn
		eachInstr(fn, func(_ *ssa.BasicBlock, _ int, i ssa.Instruction) {
			var x, idx ssa.Value
			switch v := i.(type) {
			case *ssa.IndexAddr:
				x, idx = v.X, v.Index
			case *ssa.Index:
				x, idx = v.X, v.Index
			default:
				return
			}
			if _, isSlice := x.Type().Underlying().(*types.Slice); !isSlice {
				return
			}
			y := rangeInduction(idx)
			if y == nil || sameSlice(x, y) || valueKey(x) == valueKey(y) {
				return
			}
			// scope: one of the two has a length controlled by the document
			if typeNameOf(x.Type()) != "Array" && typeNameOf(y.Type()) != "Array" {
				return
			}
			pos := p.Fset.Position(i.Pos()).String()
			construct := fmt.Sprintf("%s[range index of %s]", exprName(x), exprName(y))
			blk := i.Block()
			switch {
			case madeWithLenOf(x, y):
				r.OK("C08.R3", fid, construct, pos, "S1: indexed slice was made with the length of the ranged slice", true)
				return
			case lenRelationAt(fn, blk, x, y):
				r.OK("C08.R3", fid, construct, pos, "S2: a dominating comparison establishes len(indexed) >= len(ranged)", true)
				return
			case idxBoundAt(fn, blk, x, idx):
				r.OK("C08.R3", fid, construct, pos, "S5: a dominating comparison bounds the index by len(indexed)", true)
				return
			}
			// S4: both parameters -> call sites
			px, okx := x.(*ssa.Parameter)
			py, oky := y.(*ssa.Parameter)
			if okx && oky {
				xi, yi := paramIndex(fn, px), paramIndex(fn, py)
				var bad []string
				n := 0
				for _, caller := range cg.In[fn] {
					caller := caller
					eachInstr(caller, func(_ *ssa.BasicBlock, _ int, ci ssa.Instruction) {
						call, ok := ci.(ssa.CallInstruction)
						if !ok {
							return
						}
						if f := staticCallee(call); f == nil || unwrapSynthetic(f) != fn {
							return
						}
						n++
						if !callSiteLenRelation(caller, call, xi, yi) {
							bad = append(bad, p.Fset.Position(call.Pos()).String())
						}
					})
				}
				if n == 0 {
					r.Bad("C08.R3", fid, construct, pos, "index by the position in another slice; both are parameters and no static call site was found to carry the length obligation")
					return
				}
				if len(bad) == 0 {
					r.OK("C08.R3", fid, construct, pos, fmt.Sprintf("S4: on every path to each call site (%d) the argument for %s is nil or a comparison established len(%s) >= len(%s)", n, px.Name(), px.Name(), py.Name()), true)
				} else {
					r.Bad("C08.R3", fid, construct, pos, fmt.Sprintf("%s is indexed by the position in %s, but the call site(s) %s can be reached with a non-nil %s without a comparison establishing len(%s) >= len(%s): a shorter %s panics with index out of range", px.Name(), py.Name(), strings.Join(dedupStrings(bad), ", "), px.Name(), px.Name(), py.Name(), px.Name()))
				}
				return
			}
			if t, ok := c08IndexTriage[fid]; ok {
				r.OK("C08.R3", fid, construct, pos, "triaged: "+t, false)
				return
			}
			r.Bad("C08.R3", fid, construct, pos, "slice indexed by the position in a different slice without an established length relation")
		})
	}
}

// c08IndexTriage: sibling index sites whose length relation is established where the checker cannot follow it.
var c08IndexTriage = map[string]string{
	"pkg/pdfcpu/validate.validateMeasureDisplayUnits": "the only caller obtains the array through validateNameArrayEntry with the validator len(a) == 3, the size of the indexed table",
}

// callSiteLenRelation: on every path to the call, the argument for the indexed parameter is nil (phi edge carrying nil, or the
// failed branch of the comma-ok type assertion that produced it) or a comparison established len(arg x) >= len(arg y).
func callSiteLenRelation(caller *ssa.Function, call ssa.CallInstruction, xi, yi int) bool {
	args := call.Common().Args
	ax, ay := args[xi], args[yi]
	if cc, ok := ay.(*ssa.Call); ok {
		if _, ref := callRef(cc); ref != "" {
			if k, ok := c08LenPreserving[ref]; ok && len(cc.Call.Args) > k {
				ay = cc.Call.Args[k]
			}
		}
	}
	srcs := nonNilSources(ax)
	if len(srcs) == 0 {
		return true // always nil
	}
	if len(srcs) > 1 {
		return false
	}
	src := srcs[0]
	if madeWithLenOf(src, ay) {
		return true
	}
	genE := map[Edge][]string{}
	add := func(e Edge) { genE[e] = append(genE[e], "F") }
	// len relation edges
	eachInstr(caller, func(_ *ssa.BasicBlock, _ int, i ssa.Instruction) {
		b, ok := i.(*ssa.BinOp)
		if !ok {
			return
		}
		lx, ly := lenArgOf(b.X), lenArgOf(b.Y)
		if lx == nil || ly == nil {
			return
		}
		var op token.Token
		switch {
		case sameSlice(lx, src) && sameSlice(ly, ay):
			op = b.Op
		case sameSlice(lx, ay) && sameSlice(ly, src):
			op = mirrorOp(b.Op)
		default:
			return
		}
		for _, want := range []bool{true, false} {
			o := op
			if !want {
				o = negateOp(o)
			}
			if o == token.EQL || o == token.GEQ || o == token.GTR {
				for _, e := range condEdges(b, want) {
					add(e)
				}
			}
		}
	})
	// failed comma-ok assertion: zero value
	if ex, ok := src.(*ssa.Extract); ok && ex.Index == 0 {
		if ta, ok := ex.Tuple.(*ssa.TypeAssert); ok && ta.CommaOk {
			for _, rf := range *ta.Referrers() {
				if okv, ok := rf.(*ssa.Extract); ok && okv.Index == 1 {
					for _, al := range wideAliases(okv) {
						for _, e := range condEdges(al, false) {
							add(e)
						}
					}
				}
			}
		}
	}
	// phi edges carrying nil
	seen := map[ssa.Value]bool{}
	var walk func(v ssa.Value)
	walk = func(v ssa.Value) {
		phi, ok := v.(*ssa.Phi)
		if !ok || seen[v] {
			return
		}
		seen[v] = true
		for k, e := range phi.Edges {
			if c, ok := e.(*ssa.Const); ok && c.IsNil() {
				pred := phi.Block().Preds[k]
				for si, sblk := range pred.Succs {
					if sblk == phi.Block() {
						add(Edge{pred, si})
					}
				}
				continue
			}
			walk(e)
		}
	}
	walk(ax)
	ff := NewFactFlow(caller, nil, genE, nil, nil)
	return ff.Holds(call, "F")
}

func paramIndex(fn *ssa.Function, p *ssa.Parameter) int {
	for i, q := range fn.Params {
		if q == p {
			return i
		}
	}
	return -1
}

func exprName(v ssa.Value) string {
	if s := accessPath(v); s != "" {
		return s
	}
	return v.Name()
}

func init() {
	extraDebug["c08r3"] = func(p *Program) {
		c := &Ctx{P: p, R: NewReport("C08", "debug")}
		runC08R3(c)
		for _, o := range c.R.Obls {
			fmt.Printf("%s %s %s\n    %s\n", o.Verdict, o.Key, o.Pos, o.Witness)
		}
	}
}

func init() {
	extraDebug["constidx"] = func(p *Program) {
		total, unguarded := 0, 0
		byFn := map[string]int{}
		for _, fn := range p.Funcs {
			if !isSubject(fn) {
				continue
			}
			fn := fn
			eachInstr(fn, func(b *ssa.BasicBlock, _ int, i ssa.Instruction) {
				var x, idx ssa.Value
				switch v := i.(type) {
				case *ssa.IndexAddr:
					x, idx = v.X, v.Index
				case *ssa.Index:
					x, idx = v.X, v.Index
				default:
					return
				}
				if typeNameOf(x.Type()) != "Array" {
					return
				}
				k, ok := constInt(idx)
				if !ok {
					return
				}
				total++
				if constIndexGuarded(fn, b, x, k) || madeHere(x) || constIndexGuardedAtCallers(p, fn, x, k) {
					return
				}
				unguarded++
				byFn[FuncID(fn)]++
			})
		}
		fmt.Printf("constant indexes into types.Array: %d, without a dominating length test in the function: %d in %d functions\n", total, unguarded, len(byFn))
		var fs []string
		for f, n := range byFn {
			fs = append(fs, fmt.Sprintf("%3d %s", n, f))
		}
		sort.Strings(fs)
		for _, f := range fs {
			fmt.Println(f)
		}
	}
}

// constIndexGuarded: a comparison of len(x) with a constant on a dominating edge makes x[k] safe.
func constIndexGuarded(fn *ssa.Function, blk *ssa.BasicBlock, x ssa.Value, k int64) bool {
	ok := false
	eachInstr(fn, func(_ *ssa.BasicBlock, _ int, i ssa.Instruction) {
		if ok {
			return
		}
		b, isB := i.(*ssa.BinOp)
		if !isB {
			return
		}
		var lenSide, other ssa.Value
		op := b.Op
		if l := lenArgOf(b.X); l != nil {
			lenSide, other = l, b.Y
		} else if l := lenArgOf(b.Y); l != nil {
			lenSide, other = l, b.X
			op = mirrorOp(op)
		} else {
			return
		}
		if !sameSlice(lenSide, x) && valueKey(lenSide) != valueKey(x) {
			return
		}
		n, isC := constInt(other)
		if !isC {
			return
		}
		// edges on which len(x) > k holds
		for _, want := range []bool{true, false} {
			holds := false
			o := op
			if !want {
				o = negateOp(o)
			}
			switch o {
			case token.EQL:
				holds = n > k
			case token.GTR:
				holds = n >= k
			case token.GEQ:
				holds = n > k
			case token.NEQ:
				holds = n == 0 && k == 0 // len(x) != 0
			}
			if !holds {
				continue
			}
			for _, e := range condEdges(b, want) {
				if edgeDominates(e, blk) {
					ok = true
				}
			}
		}
	})
	return ok
}

// madeHere: the array is built in this function (a composite literal or make), not taken from the document.
func madeHere(x ssa.Value) bool {
	for _, l := range valueLeaves(x) {
		switch v := l.(type) {
		case *ssa.Slice:
			if _, ok := v.X.(*ssa.Alloc); ok {
				continue
			}
			return false
		case *ssa.MakeSlice:
			continue
		case *ssa.ChangeType:
			if !madeHere(v.X) {
				return false
			}
		case *ssa.Call:
			if b, ok := v.Call.Value.(*ssa.Builtin); ok && b.Name() == "append" {
				continue
			}
			return false
		default:
			return false
		}
	}
	return true
}

var constIdxCG *CG

// constIndexGuardedAtCallers: x is a parameter and every static call site passes an array whose length was tested there.
func constIndexGuardedAtCallers(p *Program, fn *ssa.Function, x ssa.Value, k int64) bool {
	prm, ok := x.(*ssa.Parameter)
	if !ok {
		return false
	}
	idx := paramIndex(fn, prm)
	if idx < 0 {
		return false
	}
	if constIdxCG == nil || constIdxCG.P != p {
		constIdxCG = BuildCG(p)
	}
	n := 0
	all := true
	for _, caller := range constIdxCG.In[fn] {
		caller := caller
		eachInstr(caller, func(b *ssa.BasicBlock, _ int, i ssa.Instruction) {
			call, ok := i.(*ssa.Call)
			if !ok {
				return
			}
			if f := staticCallee(call); f == nil || unwrapSynthetic(f) != fn || idx >= len(call.Call.Args) {
				return
			}
			n++
			a := call.Call.Args[idx]
			if !constIndexGuarded(caller, b, a, k) && !madeHere(a) {
				all = false
			}
		})
	}
	return n > 0 && all
}

// ---------------- C08.R4 (round 3): a constant index into a document array is behind a length test ----------------

// arityValidated: x comes from a validate*ArrayEntry(…, func(a types.Array) bool { return len(a) == n }) call whose
// validator closure establishes len(a) > k.
func arityValidated(x ssa.Value, k int64) bool {
	for _, l := range valueLeaves(x) {
		ex, ok := l.(*ssa.Extract)
		if !ok {
			return false
		}
		call, ok := ex.Tuple.(*ssa.Call)
		if !ok {
			return false
		}
		found := false
		for _, a := range call.Call.Args {
			var vf *ssa.Function
			switch v := a.(type) {
			case *ssa.MakeClosure:
				vf, _ = v.Fn.(*ssa.Function)
			case *ssa.Function:
				vf = v
			}
			if vf == nil || len(vf.Params) != 1 || typeNameOf(vf.Params[0].Type()) != "Array" {
				continue
			}
			eachInstr(vf, func(_ *ssa.BasicBlock, _ int, i ssa.Instruction) {
				b, ok := i.(*ssa.BinOp)
				if !ok {
					return
				}
				if lenArgOf(b.X) == nil {
					return
				}
				n, isC := constInt(b.Y)
				if !isC {
					return
				}
				switch b.Op {
				case token.EQL, token.GEQ:
					if n > k {
						found = true
					}
				case token.GTR:
					if n >= k {
						found = true
					}
				}
			})
		}
		if !found {
			return false
		}
	}
	return true
}

// c08ConstIdxTriage: functions whose constant indexes are safe for a reason the rule cannot see (read one by one).
var c08ConstIdxTriage = map[string]string{
	"pkg/pdfcpu/model.(*XRefTable).IDFirstElement":               "both callers test len(ctx.ID) == 0 first (read.go setupEncryptionKey, write.go setupEncryption); the array is a field, not a parameter",
	"pkg/pdfcpu.handleLinearizationParmDict":                     "a[0] follows `if len(a) != 2 && len(a) != 4 { return }` (a disjunction the edge rule does not combine)",
	"pkg/pdfcpu/validate.validateDestinationArray":               "validateDestinationArrayLength (2 <= len <= 6) is checked before the elements are read",
	"pkg/pdfcpu/validate.validateDestinationArrayFirstElement":   "called by validateDestinationArray after validateDestinationArrayLength",
	"pkg/pdfcpu.renderImage":                                     "image rendering runs on validated contexts: validateColorSpaceArray rejects an empty colour space array",
	"pkg/pdfcpu.renderICCBased":                                  "validated context: an ICCBased colour space array has 2 elements (validateICCBasedColorSpace)",
	"pkg/pdfcpu.renderIndexed":                                   "validated context: an Indexed colour space array has 4 elements (validateIndexedColorSpace)",
	"pkg/pdfcpu.renderIndexedArrayCS":                            "validated context: the base colour space array of an Indexed colour space was validated by kind",
	"pkg/pdfcpu.renderDeviceN":                                   "validated context: Separation has 4, DeviceN 4 or 5 elements (validateSeparationColorSpace / validateDeviceNColorSpace)",
	"pkg/pdfcpu.createAnnotsArray":                               "sample generator (pdfcpu create demo files): the rectangle is a literal of its caller",
	"pkg/pdfcpu.createPolyLineAnnotation":                        "sample generator: the rectangle is a literal of its caller",
	"pkg/pdfcpu.createPolygonAnnotation":                         "sample generator: the rectangle is a literal of its caller",
	"pkg/pdfcpu.createHighlightAnnotation":                       "sample generator: the rectangle is a literal of its caller",
	"pkg/pdfcpu.createRedactAnnotation":                          "sample generator: the rectangle is a literal of its caller",
	"pkg/pdfcpu.createSquigglyAnnotation":                        "sample generator: the rectangle is a literal of its caller",
	"pkg/pdfcpu.createStrikeOutAnnotation":                       "sample generator: the rectangle is a literal of its caller",
	"pkg/pdfcpu.createUnderlineAnnotation":                       "sample generator: the rectangle is a literal of its caller",
	"pkg/pdfcpu.createInkAnnotation":                             "sample generator: the rectangle is a literal of its caller",
}

func runC08R4(c *Ctx) {
	p, r := c.P, c.R
	used := map[string]bool{}
	for _, fn := range p.Funcs {
		if !isSubject(fn) {
			continue
		}
		fn := fn
		fid := FuncID(fn)
		cnt := map[string]int{}
		eachInstr(fn, func(b *ssa.BasicBlock, _ int, i ssa.Instruction) {
			var x, idx ssa.Value
			switch v := i.(type) {
			case *ssa.IndexAddr:
				x, idx = v.X, v.Index
			case *ssa.Index:
				x, idx = v.X, v.Index
			default:
				return
			}
			if typeNameOf(x.Type()) != "Array" {
				return
			}
			k, ok := constInt(idx)
			if !ok {
				return
			}
			base := fmt.Sprintf("%s[%d]", exprName(x), k)
			cnt[base]++
			construct := base
			if cnt[base] > 1 {
				construct = fmt.Sprintf("%s#%d", base, cnt[base])
			}
			pos := p.Pos(i.Pos())
			switch {
			case constIndexGuarded(fn, b, x, k):
				r.OK("C08.R4", fid, construct, pos, "a dominating comparison of the array's length makes the index valid", true)
			case madeHere(x):
				r.OK("C08.R4", fid, construct, pos, "the array is built in this function", false)
			case arityValidated(x, k):
				r.OK("C08.R4", fid, construct, pos, "the array comes from a validate…ArrayEntry call whose arity validator establishes the length", true)
			case constIndexGuardedAtCallers(p, fn, x, k):
				r.OK("C08.R4", fid, construct, pos, "a parameter: every static call site tests the length (or passes a literal)", true)
			default:
				if why, ok := c08ConstIdxTriage[fid]; ok {
					used[fid] = true
					r.OK("C08.R4", fid, construct, pos, "triaged: "+why, false)
					return
				}
				r.Bad("C08.R4", fid, construct, pos, "a document-supplied array is indexed with a constant and nothing on the way tests its length: a shorter array (an indirect reference to null dereferences to an empty one) panics with index out of range instead of returning an error")
			}
		})
	}
	for f := range c08ConstIdxTriage {
		if !used[f] {
			r.Note("C08.R4 triage entry %s no longer needed", f)
		}
	}
}

// ---------------- C08.R5 (round 3 seeds): slices of stream content by document offsets are bounded ----------------

// c08ContentSliceTriage: content slicing sites whose bounds come from searches inside the same buffer.
var c08ContentSliceTriage = map[string]string{
	"pkg/pdfcpu.removeArtifactsFromPageContents": "beg and end are results of bytes.Index on the same buffer (positions of BMC/EMC operators just found in it)",
	"pkg/pdfcpu.removeArtifacts":                 "beg and end are results of bytes.Index on the same buffer (positions of BMC/EMC operators just found in it)",
}

func contentFieldOf(v ssa.Value) string {
	fp := fieldPath(v)
	if strings.HasSuffix(fp, "Content") || strings.HasSuffix(fp, "Raw") {
		return fp
	}
	return ""
}

// lenOfSame: v is len(<the same field path>) (possibly converted).
func lenOfSame(v ssa.Value, fp string) bool {
	for {
		switch x := v.(type) {
		case *ssa.Convert:
			v = x.X
			continue
		case *ssa.Call:
			if b, ok := x.Call.Value.(*ssa.Builtin); ok && b.Name() == "len" && len(x.Call.Args) == 1 {
				return fieldPath(x.Call.Args[0]) == fp
			}
		}
		return false
	}
}

func runC08R5(c *Ctx) {
	p, r := c.P, c.R
	n := 0
	for _, fn := range p.Funcs {
		if !isSubject(fn) {
			continue
		}
		fn := fn
		fid := FuncID(fn)
		k := 0
		eachInstr(fn, func(b *ssa.BasicBlock, _ int, i ssa.Instruction) {
			sl, ok := i.(*ssa.Slice)
			if !ok {
				return
			}
			fp := contentFieldOf(sl.X)
			if fp == "" {
				return
			}
			nonConst := func(v ssa.Value) bool {
				if v == nil {
					return false
				}
				_, isC := v.(*ssa.Const)
				return !isC
			}
			if !nonConst(sl.Low) && !nonConst(sl.High) {
				return
			}
			k++
			n++
			construct := fmt.Sprintf("slice of %s#%d", fp, k)
			pos := p.Pos(sl.Pos())
			pr := newC31Prover(fn)
			pr.pc = nil
			pr.base = func(v ssa.Value) bool { return lenOfSame(v, fp) }
			pt := c31Point{b: b}
			var miss []string
			if nonConst(sl.High) {
				if !pr.lep(sl.High, pt) {
					miss = append(miss, "the upper bound is not compared with len("+fp+")")
				}
			}
			if nonConst(sl.Low) {
				upperOK := pr.lep(sl.Low, pt)
				if !upperOK && sl.High != nil {
					// low <= high with high bounded is as good
					for _, f := range pr.facts(pt) {
						if (f.kind == "LE" || f.kind == "LT") && c31Same(f.a, sl.Low) && c31Same(f.b, sl.High) {
							upperOK = true
						}
					}
				}
				if !upperOK {
					miss = append(miss, "the lower bound is not compared with the upper bound or with len("+fp+")")
				}
				if !pr.ge0(sl.Low, pt) {
					miss = append(miss, "the lower bound is not shown to be non-negative")
				}
			}
			switch {
			case len(miss) == 0:
				r.OK("C08.R5", fid, construct, pos, "the bounds are behind comparisons with the length of the same buffer (and with each other)", true)
			case c08ContentSliceTriage[fid] != "":
				r.OK("C08.R5", fid, construct, pos, "triaged: "+c08ContentSliceTriage[fid], false)
			default:
				r.Bad("C08.R5", fid, construct, pos, "a stream's bytes are sliced with offsets that come from the document ("+strings.Join(miss, "; ")+"): an offset beyond the decoded length panics with slice bounds out of range instead of returning an error")
			}
		})
	}
	if n == 0 {
		r.Bad("C08.R5", "-", "anchor", "", "UNRESOLVED-ANCHOR: no slice of a stream's Content/Raw with computed bounds found")
	}
}

// ---------------- C08.R6 (round 3 seeds): the free-list validator closes the list on every early exit ----------------

// The free list of the cross reference table is a chain through the Offset fields of free entries; every later
// walker (UndeleteObject, FreeObject, the writer) follows it until it reads 0 and has no other guard. The one
// place that makes that terminate for a malformed table is validateFreeList: it walks with a visited set and,
// when the chain leaves the recorded free objects or returns to a visited one, stores 0 into the last entry.
// The rule: in the visited-set loop of that function every exit that is neither the chain's own end (the header
// test) nor an error return passes, in the same iteration, a store of the constant 0 through an Offset field.
func runC08R6(c *Ctx) {
	p, r := c.P, c.R
	fn := p.Func("pkg/pdfcpu/model.(*XRefTable).validateFreeList")
	if fn == nil || len(fn.Blocks) == 0 {
		r.Bad("C08.R6", "pkg/pdfcpu/model.(*XRefTable).validateFreeList", "anchor", "", "UNRESOLVED-ANCHOR: the free list validator was not found")
		return
	}
	fid := FuncID(fn)
	isOffsetZeroStore := func(i ssa.Instruction) bool {
		st, ok := i.(*ssa.Store)
		if !ok {
			return false
		}
		if n, ok := c31ConstInt(st.Val); !ok || n != 0 {
			return false
		}
		// *e.Offset = 0: the address is the loaded value of a field named Offset
		ld, ok := st.Addr.(*ssa.UnOp)
		if !ok || ld.Op != token.MUL {
			return false
		}
		fa, ok := ld.X.(*ssa.FieldAddr)
		return ok && structField(fa.X.Type(), fa.Field).Name() == "Offset"
	}
	errorOnly := func(b *ssa.BasicBlock) bool {
		// every return reachable from b (including b) is an error return
		blocks := reachableBlocks(b)
		blocks[b] = true
		any := false
		for bb := range blocks {
			if len(bb.Instrs) == 0 {
				continue
			}
			if ret, ok := bb.Instrs[len(bb.Instrs)-1].(*ssa.Return); ok {
				any = true
				if k, ok := returnErrKind(ret); !ok || k != errNonNil {
					return false
				}
			}
		}
		return any
	}
	found := 0
	for _, l := range naturalLoops(fn) {
		// the visited-set loop: it deletes from a map
		hasDelete := false
		for b := range l.blocks {
			for _, i := range b.Instrs {
				if call, ok := i.(*ssa.Call); ok {
					if bi, ok := call.Call.Value.(*ssa.Builtin); ok && bi.Name() == "delete" {
						hasDelete = true
					}
				}
			}
		}
		if !hasDelete {
			continue
		}
		found++
		closes := map[*ssa.BasicBlock]bool{}
		for _, b := range fn.Blocks {
			for _, i := range b.Instrs {
				if isOffsetZeroStore(i) {
					closes[b] = true
				}
			}
		}
		// blocks of the loop reachable from the header in one iteration without passing a closing store
		open := map[*ssa.BasicBlock]bool{l.header: true}
		st := []*ssa.BasicBlock{l.header}
		for len(st) > 0 {
			b := st[len(st)-1]
			st = st[:len(st)-1]
			if closes[b] {
				continue
			}
			for _, s := range b.Succs {
				if !l.blocks[s] || s == l.header || open[s] {
					continue
				}
				open[s] = true
				st = append(st, s)
			}
		}
		// leavesOpen: from s (outside the loop) a return that is not an error return is reachable without a closing store
		leavesOpen := func(s *ssa.BasicBlock) bool {
			seen := map[*ssa.BasicBlock]bool{s: true}
			st := []*ssa.BasicBlock{s}
			for len(st) > 0 {
				b := st[len(st)-1]
				st = st[:len(st)-1]
				if closes[b] {
					continue
				}
				if len(b.Instrs) > 0 {
					if ret, ok := b.Instrs[len(b.Instrs)-1].(*ssa.Return); ok {
						if k, ok := returnErrKind(ret); !ok || k != errNonNil {
							return true
						}
					}
				}
				for _, n := range b.Succs {
					if !seen[n] {
						seen[n] = true
						st = append(st, n)
					}
				}
			}
			return false
		}
		k := 0
		for _, b := range fn.Blocks {
			if !l.blocks[b] || b == l.header {
				continue
			}
			for _, s := range b.Succs {
				if l.blocks[s] {
					continue
				}
				k++
				construct := fmt.Sprintf("early exit#%d of the visited-set loop", k)
				pos := p.Pos(lastPos(b))
				switch {
				case errorOnly(s):
					r.OK("C08.R6", fid, construct, pos, "the exit leads only to error returns", true)
				case open[b] && !closes[b] && leavesOpen(s):
					r.Bad("C08.R6", fid, construct, pos, "the free-list walk can leave its visited-set loop here without storing 0 into the last entry's Offset: the chain stays cyclic or dangling and the unguarded walkers (UndeleteObject, FreeObject) never reach the end of the list")
				default:
					r.OK("C08.R6", fid, construct, pos, "every path through this exit to a successful return stores 0 through an Offset field (the list is closed at the last valid entry)", true)
				}
			}
		}
	}
	if found == 0 {
		r.Bad("C08.R6", fid, "anchor", p.Pos(fn.Pos()), "UNRESOLVED-ANCHOR: no loop with a visited set (delete from a map) in the free list validator")
	}
}
