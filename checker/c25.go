package main

import (
	"fmt"
	"go/constant"
	"go/token"
	"go/types"
	"sort"
	"strings"

	"golang.org/x/tools/go/ssa"
)

// C25 — wrong passwords are rejected; credential changes need the owner password (partial).
// C26 — restricted documents refuse operations their permissions deny (partial).

func init() {
	register(&Check{
		ID:  "C25",
		Run: runC25,
		Explanation: "Decides the placement and shape of the password gate: (R1) in setupEncryptionKey every success return and the tail call handlePermissions is reached only through the true result of validateOwnerPassword or validateUserPassword (must-pass-through on the bool results' true edges), the !ok branch after the user-password check returns ErrWrongPassword, and in each of the six validate*Password* siblings every return whose ok result can be true is either the result of a hash comparison (passwordHashEqual / passwordHashPrefixEqual / bytes.Equal / subtle.ConstantTimeCompare / another validator) or a constant true dominated by the true edge of such a comparison; (R2) needsOwnerAndUserPassword compares the command against exactly {CHANGEOPW, CHANGEUPW, SETPERMISSIONS} — the three modes whose write path (updateEncryption) re-derives /U from ctx.UserPW and /O from ctx.OwnerPW, so both must have been authenticated — the !ok(owner) && needs(cmd) branch returns an error wrapping ErrOwnerPasswordRequired, and the owner-only success return is confined to the !needs(cmd) edge; (R3) in updateEncryption the new passwords are installed (ctx.UserPW = *UserPWNew, ctx.OwnerPW = *OwnerPWNew, or the New pointer is nil) on every path before any of o(ctx), u(ctx), calcOAndU(ctx) derives key material from them; ctx.EncKey is assigned only inside the validators/key-setup functions of pkg/pdfcpu (who-may-write); checkForEncryption (→ setupEncryptionKey) precedes dereferencing in the read path. (R4) the AES-256 owner validators return false for an empty candidate (len(ctx.OwnerPW) == 0) before any hash is computed; (R5) o() and validateOwnerPassword() hand values from the same context fields to key(): a fallback (empty owner password → user password) applied on one side only makes the stored /O authenticate another password than the one that was set; (R6) no error result is discarded in pkg/pdfcpu/crypto.go (password preparation and key derivation report unusable input through errors; hash.Hash.Write is exempt). (R1, extended) validatePermissions reports true only as the result of the byte comparison of the decrypted /Perms with /P, or where the revision was compared unequal to 5 and 6 (no /Perms exists) — a tolerant 'relaxed mode' true lets an edited /P pass without the owner password. (R7) every store into Configuration.UserPWNew / OwnerPWNew in pkg/api, pkg/cli, cmd stores a provably non-nil pointer (an address, or a module function all of whose returns are such): the writer reads nil as 'no change requested', so an empty new password must not become nil. NOT decided: hash/key-derivation mathematics (C24), behaviour over change histories beyond the ordering clause R3.",
		Rules: []string{
			"C25.R1 MPT: authentication gate and shape of the validators",
			"C25.R2 TABLE+MPT: modes that require both passwords; owner-required error",
			"C25.R4 shape: AES-256 owner validators refuse an empty candidate",
			"C25.R5 siblings: o() and validateOwnerPassword() derive the /O key from the same fields",
			"C25.R6 error discipline: no discarded error in crypto.go",
			"C25.R7 flow: the API stores a non-nil new-password pointer (nil means 'no change' to the writer)",
			"C25.R8 siblings (= C22.R9): the user-side and the owner-side key derivation both cut and pad the password to 32 bytes",
			"C25.R9 ownership: NewDefaultConfiguration hands out a copy of the loaded template, never the template (passwords are fields of the configuration)",
			"C25.R3 MPT: new passwords installed before O/U derivation; EncKey writers",
		},
		Assumptions: []string{"the hash comparison helpers compare what they are given (value semantics not decided)"},
		Technique:   "must-pass-through dataflow on bool-result true edges; backward classification of returned bool values; constant-set extraction from comparison chains against model.CommandMode constants; who-may-write on a struct field",
		Note:        "Partial: gate placement/ordering only.",
	})
	register(&Check{
		ID:  "C26",
		Run: runC26,
		Explanation: "Decides the shape of the permission gate: (R1) the user-password-only success path of setupEncryptionKey returns through handlePermissions; in handlePermissions every success return is preceded by the true edge of hasNeededPermissions(ctx.Cmd, ctx.E) except on the edge where both passwords are empty; (R2) hasNeededPermissions returns false when a non-zero mask has no bit in P, for both maskExtract and maskModify, called with the same mode and with enc.R; each mask function reads the perm table entry for its mode argument, returns 0 only when the entry is absent or its extract/modify field is 0, and chooses between its two layouts by a revision test that is true for revisions 3,4,5,6 and false for revision 2 (evaluated on the comparison's constant and operator; a '>3' or '>=4' boundary is rejected); the two layout constants are non-zero, single-bit and different, and extract/modify masks of one layout differ; (R3) every pkg/api function that assigns a constant command mode to conf.Cmd and then hands conf to a reader does the assignment on every path before the read (an assignment moved inside `if conf == nil {…}` leaves a caller-supplied configuration with a stale mode, so the permission check runs for the wrong command). Extracted constants are recorded in evidence. (R4) the command mode under which the document is read is the one the operation was dispatched for: for every handler of cli.Dispatch (switches of the dispatch* functions and the dispatch table), every constant conf.Cmd stored by pkg/api code reachable from it is one of the handler's own modes, or a mode whose row of the permission table demands at least as much (rows extracted from the table's initialisation), or a listed alias; (R5) = C25.R4 (an owner authenticated by an empty candidate skips the permission gate). (R6) every command mode that pkg/api stores into conf.Cmd — directly or through a mode-picking helper — has a row in the permission table, or is one of the eleven modes frozen as unclassified at the pinned commit: maskExtract/maskModify answer 'nothing needed' for a mode without a row, so a dropped row opens the command. NOT decided: which commands ought to need which right (the property defers to pdfcpu's table).",
		Rules: []string{
			"C26.R1 MPT: permission check before success in handlePermissions; user-only path ends in handlePermissions",
			"C26.R2 TABLE: mask functions, revision boundary, mask constants, hasNeededPermissions",
			"C26.R4 cross-layer: conf.Cmd stored by the API code of a handler is a mode the handler is dispatched for (or at least as strict)",
			"C26.R5 = C25.R4",
			"C26.R6 TABLE: every command mode the API sets has a row in the permission table",
			"C26.R7 MPT: validatePermissions reports success only through the comparison of /Perms with /P (or behind the revision test)",
			"C26.R3 MPT: conf.Cmd is set on every path before the document is read",
		},
		Assumptions: []string{"the perm table's classification of commands is pdfcpu's own policy"},
		Technique:   "must-pass-through dataflow; constant/operator extraction and concrete evaluation of the revision comparison over {2..6}; sibling cross-check of maskExtract/maskModify; per-function MPT over ~100 API entry points",
		Note:        "Partial: gate placement, table plumbing and the revision boundary.",
	})
}

var c25Validators = []string{
	"pkg/pdfcpu.validateUserPassword", "pkg/pdfcpu.validateOwnerPassword", "pkg/pdfcpu.validateOwnerPasswordAES256", "pkg/pdfcpu.validateUserPasswordAES256",
	"pkg/pdfcpu.validateOwnerPasswordAES256Rev6", "pkg/pdfcpu.validateUserPasswordAES256Rev6",
	// round 3 of seeding: the /Perms check is what binds the clear-text /P of an AES-256 document to the file key;
	// a true result not decided by the byte comparison lets an edited /P pass without the owner password
	"pkg/pdfcpu.validatePermissions",
}

var c25Compares = map[string]bool{
	"pkg/pdfcpu.passwordHashEqual": true, "pkg/pdfcpu.passwordHashPrefixEqual": true, "bytes.Equal": true, "crypto/subtle.ConstantTimeCompare": true,
}

func runC25(c *Ctx) {
	p, r := c.P, c.R
	r.MinInst["C25.R7"] = 2
	r.MinInst["C25.R8"] = 2
	checkLegacyPasswordNormalised(c, "C25.R8")
	r.MinInst["C25.R9"] = 1
	checkDefaultConfigurationCopied(c)
	checkPasswordChangeRequested(c)
	r.MinInst["C25.R1"] = 8
	r.MinInst["C25.R2"] = 3
	r.MinInst["C25.R3"] = 4
	r.MinInst["C25.R4"] = 2
	r.MinInst["C25.R5"] = 1
	r.MinInst["C25.R6"] = 1
	checkEmptyOwnerCandidate(c, "C25.R4")
	checkOwnerKeySymmetry(c)
	checkNoDroppedErrors(c)
	for _, v := range c25Validators {
		c25Compares[v] = true
	}
	// ---- R1a: gate in setupEncryptionKey
	RunFlowRule(c, FlowRule{
		ID:   "C25.R1",
		Func: "pkg/pdfcpu.setupEncryptionKey",
		Gen: []GenSpec{
			{Fact: "authenticated", On: Pred{Calls: []string{"pkg/pdfcpu.validateOwnerPassword", "pkg/pdfcpu.validateUserPassword"}}, OnTrue: true},
		},
		Need: []NeedSpec{
			{Fact: "authenticated", At: Pred{NilReturn: true}, Why: "setupEncryptionKey can report success (key installed, document readable) on a path where neither validateOwnerPassword nor validateUserPassword returned true"},
			{Fact: "authenticated", At: Pred{Calls: []string{"pkg/pdfcpu.handlePermissions"}}, Why: "handlePermissions is reached without a successful password validation"},
		},
		Min: 2,
	})
	// wrong-password branch
	if fn := p.Func("pkg/pdfcpu.setupEncryptionKey"); fn != nil {
		okShape := false
		eachInstr(fn, func(_ *ssa.BasicBlock, _ int, i ssa.Instruction) {
			call, ok := i.(*ssa.Call)
			if !ok {
				return
			}
			if _, ref := callRef(call); ref != "pkg/pdfcpu.validateUserPassword" {
				return
			}
			for _, bv := range boolResults(call) {
				for _, al := range aliasesOf(bv) {
					for _, e := range condEdges(al, false) {
						tgt := e.From.Succs[e.Succ]
						if ret, ok := tgt.Instrs[len(tgt.Instrs)-1].(*ssa.Return); ok {
							for _, res := range ret.Results {
								if ld, ok := res.(*ssa.UnOp); ok {
									if g, ok := ld.X.(*ssa.Global); ok && g.Name() == "ErrWrongPassword" {
										okShape = true
									}
								}
							}
						}
					}
				}
			}
		})
		if okShape {
			r.OK("C25.R1", FuncID(fn), "wrong-password-branch", p.Pos(fn.Pos()), "the !ok edge of validateUserPassword returns ErrWrongPassword", true)
		} else {
			r.Bad("C25.R1", FuncID(fn), "wrong-password-branch", p.Pos(fn.Pos()), "the !ok edge of validateUserPassword does not directly return ErrWrongPassword")
		}
	} else {
		r.Bad("C25.R1", "pkg/pdfcpu.setupEncryptionKey", "anchor", "", "UNRESOLVED-ANCHOR: function not found")
	}
	// ---- R1b: validators
	for _, v := range c25Validators {
		fn := p.Func(v)
		if fn == nil {
			r.Bad("C25.R1", v, "anchor", "", "UNRESOLVED-ANCHOR: validator not found")
			continue
		}
		n := 0
		for _, ret := range returnsOf(fn) {
			if len(ret.Results) == 0 {
				continue
			}
			n++
			construct := fmt.Sprintf("return#%d ok", n)
			if why := boolFromCompare(ret.Results[0], ret, 0, map[ssa.Value]bool{}); why != "" {
				r.Bad("C25.R1", v, construct, posOrFn(p, ret, fn), "this return can report the password as valid without a hash comparison deciding it: "+why)
			} else {
				r.OK("C25.R1", v, construct, posOrFn(p, ret, fn), "ok is false, the result of a hash comparison / delegated validator, or a constant true dominated by a successful comparison", true)
			}
		}
	}
	// ---- R2: needsOwnerAndUserPassword
	want := map[string]bool{"CHANGEOPW": true, "CHANGEUPW": true, "SETPERMISSIONS": true}
	if fn := p.Func("pkg/pdfcpu.needsOwnerAndUserPassword"); fn == nil {
		r.Bad("C25.R2", "pkg/pdfcpu.needsOwnerAndUserPassword", "anchor", "", "UNRESOLVED-ANCHOR")
	} else {
		got := map[string]bool{}
		eachInstr(fn, func(_ *ssa.BasicBlock, _ int, i ssa.Instruction) {
			if b, ok := i.(*ssa.BinOp); ok && b.Op == token.EQL {
				for _, v := range []ssa.Value{b.X, b.Y} {
					if cst, ok := v.(*ssa.Const); ok {
						if name := commandModeName(p, cst); name != "" {
							got[name] = true
						}
					}
				}
			}
		})
		var missing, extra []string
		for k := range want {
			if !got[k] {
				missing = append(missing, k)
			}
		}
		for k := range got {
			if !want[k] {
				extra = append(extra, k)
			}
		}
		sort.Strings(missing)
		sort.Strings(extra)
		if len(missing) > 0 {
			r.Bad("C25.R2", FuncID(fn), "mode-set", p.Pos(fn.Pos()), "needsOwnerAndUserPassword no longer covers "+strings.Join(missing, ", ")+": updateEncryption re-derives /U from ctx.UserPW and /O from ctx.OwnerPW for these commands, so an unauthenticated password would be written into the document")
		} else {
			r.OK("C25.R2", FuncID(fn), "mode-set", p.Pos(fn.Pos()), "compares against CHANGEOPW, CHANGEUPW, SETPERMISSIONS"+map[bool]string{true: " (+ " + strings.Join(extra, ",") + ")", false: ""}[len(extra) > 0], true)
		}
	}
	// owner-required error and owner-only return confined to !needs
	if fn := p.Func("pkg/pdfcpu.setupEncryptionKey"); fn != nil {
		var needsCalls []*ssa.Call
		eachInstr(fn, func(_ *ssa.BasicBlock, _ int, i ssa.Instruction) {
			if call, ok := i.(*ssa.Call); ok {
				if _, ref := callRef(call); ref == "pkg/pdfcpu.needsOwnerAndUserPassword" {
					needsCalls = append(needsCalls, call)
				}
			}
		})
		if len(needsCalls) < 1 {
			r.Bad("C25.R2", FuncID(fn), "needs-calls", p.Pos(fn.Pos()), "setupEncryptionKey no longer consults needsOwnerAndUserPassword")
		} else {
			// (a) some true edge leads to a return wrapping ErrOwnerPasswordRequired
			wrap := false
			for _, nc := range needsCalls {
				var tedges []Edge
				for _, al := range wideAliases(nc) {
					tedges = append(tedges, condEdges(al, true)...)
				}
				for _, e := range tedges {
					tgt := e.From.Succs[e.Succ]
					for _, i := range tgt.Instrs {
						if ld, ok := i.(*ssa.UnOp); ok {
							if g, ok := ld.X.(*ssa.Global); ok && g.Name() == "ErrOwnerPasswordRequired" {
								wrap = true
							}
						}
					}
				}
			}
			if wrap {
				r.OK("C25.R2", FuncID(fn), "owner-required", p.Pos(fn.Pos()), "!ok(owner) && needs(cmd) returns an error built from ErrOwnerPasswordRequired", true)
			} else {
				r.Bad("C25.R2", FuncID(fn), "owner-required", p.Pos(fn.Pos()), "no needs(cmd)==true edge leads to an error built from ErrOwnerPasswordRequired")
			}
			// (b) every success return before validateUserPassword is on a needs==false edge
			var userCall *ssa.Call
			eachInstr(fn, func(_ *ssa.BasicBlock, _ int, i ssa.Instruction) {
				if call, ok := i.(*ssa.Call); ok {
					if _, ref := callRef(call); ref == "pkg/pdfcpu.validateUserPassword" {
						userCall = call
					}
				}
			})
			genE := map[Edge][]string{}
			for _, nc := range needsCalls {
				for _, al := range wideAliases(nc) {
					for _, e := range condEdges(al, false) {
						genE[e] = append(genE[e], "single-password-ok")
					}
				}
			}
			if userCall != nil {
				for _, bv := range boolResults(userCall) {
					for _, al := range aliasesOf(bv) {
						for _, e := range condEdges(al, true) {
							genE[e] = append(genE[e], "single-password-ok")
						}
					}
				}
			}
			ff := NewFactFlow(fn, nil, genE, nil, nil)
			bad := false
			for _, ret := range returnsOf(fn) {
				k, has := returnErrKind(ret)
				if has && k == errNonNil {
					continue
				}
				if !ff.Holds(ret, "single-password-ok") {
					bad = true
					r.Bad("C25.R2", FuncID(fn), "owner-only-shortcut", posOrFn(p, ret, fn), "a success return is reachable for a credential-changing command (needsOwnerAndUserPassword) without the user password having been validated")
				}
			}
			if !bad {
				r.OK("C25.R2", FuncID(fn), "owner-only-shortcut", p.Pos(fn.Pos()), "every success return lies on a needs(cmd)==false edge or after validateUserPassword returned true", true)
			}
		}
	} else {
		r.Bad("C25.R2", "pkg/pdfcpu.setupEncryptionKey", "anchor", "", "UNRESOLVED-ANCHOR: function not found")
	}
	// ---- R3: updateEncryption ordering
	if fn := p.Func("pkg/pdfcpu.updateEncryption"); fn == nil {
		r.Bad("C25.R3", "pkg/pdfcpu.updateEncryption", "anchor", "", "UNRESOLVED-ANCHOR")
	} else {
		for _, who := range []struct{ field, newField string }{{"UserPW", "UserPWNew"}, {"OwnerPW", "OwnerPWNew"}} {
			genE := map[Edge][]string{}
			genI := map[ssa.Instruction]bool{}
			eachInstr(fn, func(_ *ssa.BasicBlock, _ int, i ssa.Instruction) {
				switch x := i.(type) {
				case *ssa.Store:
					if strings.HasSuffix(fieldPath(x.Addr), "."+who.field) || fieldPath(x.Addr) == who.field {
						if ld, ok := x.Val.(*ssa.UnOp); ok && strings.HasSuffix(fieldPath(ld.X), who.newField) {
							genI[i] = true
						}
					}
				case *ssa.UnOp:
					if x.Op == token.MUL && strings.HasSuffix(fieldPath(x), who.newField) {
						if _, isPtr := x.Type().(*types.Pointer); isPtr {
							for _, e := range nilCheckEdges(x, true) {
								genE[e] = append(genE[e], "installed")
							}
						}
					}
				}
			})
			ff := NewFactFlow(fn, func(i ssa.Instruction) []string {
				if genI[i] {
					return []string{"installed"}
				}
				return nil
			}, genE, nil, nil)
			n := 0
			eachInstr(fn, func(_ *ssa.BasicBlock, _ int, i ssa.Instruction) {
				call, ok := i.(*ssa.Call)
				if !ok {
					return
				}
				_, ref := callRef(call)
				if ref != "pkg/pdfcpu.o" && ref != "pkg/pdfcpu.u" && ref != "pkg/pdfcpu.calcOAndU" {
					return
				}
				n++
				construct := fmt.Sprintf("%s before %s#%d", who.field, ref, n)
				if ff.Holds(call, "installed") {
					r.OK("C25.R3", FuncID(fn), construct, p.Pos(call.Pos()), "ctx."+who.field+" = *"+who.newField+" (or "+who.newField+" == nil) on every path before the derivation", true)
				} else {
					r.Bad("C25.R3", FuncID(fn), construct, p.Pos(call.Pos()), "key material is derived ("+ref+") before the new "+who.field+" was installed from "+who.newField+": the written /O or /U is keyed with the old password, so the old password keeps working and the new one is rejected")
				}
			})
			if n == 0 {
				r.Bad("C25.R3", FuncID(fn), "anchor:"+who.field, p.Pos(fn.Pos()), "UNRESOLVED-ANCHOR: no o/u/calcOAndU call")
			}
		}
	}
	// EncKey writers
	writers := map[string]bool{}
	for _, fn := range p.Funcs {
		eachInstr(fn, func(_ *ssa.BasicBlock, _ int, i ssa.Instruction) {
			if st, ok := i.(*ssa.Store); ok && strings.HasSuffix(fieldPath(st.Addr), "EncKey") {
				writers[FuncID(rootFunc(fn))] = true
			}
		})
	}
	var ws []string
	for w := range writers {
		ws = append(ws, w)
	}
	sort.Strings(ws)
	for _, w := range ws {
		if strings.HasPrefix(w, "pkg/pdfcpu.") && c25EncKeyWriters[w] != "" {
			r.OK("C25.R3", w, "EncKey-store", "", "allowed: "+c25EncKeyWriters[w], false)
		} else {
			r.Bad("C25.R3", w, "EncKey-store", "", "ctx.EncKey is assigned outside the password validators / key setup functions: a key installed without authentication bypasses the password gate")
		}
	}
}

var c25EncKeyWriters = map[string]string{
	"pkg/pdfcpu.validateUserPassword":            "key derived from the supplied user password (Alg. 2), then compared",
	"pkg/pdfcpu.validateOwnerPasswordAES256":     "AES-256 R5 owner validation",
	"pkg/pdfcpu.validateUserPasswordAES256":      "AES-256 R5 user validation",
	"pkg/pdfcpu.validateOwnerPasswordAES256Rev6": "AES-256 R6 owner validation",
	"pkg/pdfcpu.validateUserPasswordAES256Rev6":  "AES-256 R6 user validation",
	"pkg/pdfcpu.calcFileEncKey":                  "fresh random key when encrypting",
	"pkg/pdfcpu.handleEncryption":                "clears the key for DECRYPT / remove-encryption",
	"pkg/pdfcpu.updateEncryption":                "re-derives the key from the (authenticated) passwords",
	"pkg/pdfcpu.setupEncryption":                 "new encryption: key from the configured passwords",
	"pkg/pdfcpu.decryptOE":                       "helper of validateOwnerPasswordAES256: key unwrapped with the supplied owner password after its hash matched",
	"pkg/pdfcpu.decryptUE":                       "helper of validateUserPasswordAES256: key unwrapped with the supplied user password after its hash matched",
	"pkg/pdfcpu.calcOAndU":                       "legacy O/U computation when (re)encrypting with authenticated passwords",
	"pkg/pdfcpu.calcOAndUAES256":                 "AES-256 R5 O/U/OE/UE computation when (re)encrypting",
	"pkg/pdfcpu.calcOAndUAES256Rev6":             "AES-256 R6 O/U/OE/UE computation when (re)encrypting",
}

// commandModeName maps an int constant of type model.CommandMode to its declared name.
func commandModeName(p *Program, cst *ssa.Const) string {
	if cst.Value == nil || cst.Value.Kind() != constant.Int {
		return ""
	}
	if typeNameOf(cst.Type()) != "CommandMode" {
		return ""
	}
	pk := p.Pkg("pkg/pdfcpu/model")
	if pk == nil {
		return ""
	}
	sc := pk.Types.Scope()
	for _, n := range sc.Names() {
		if co, ok := sc.Lookup(n).(*types.Const); ok && typeNameOf(co.Type()) == "CommandMode" {
			if constant.Compare(co.Val(), token.EQL, cst.Value) {
				return n
			}
		}
	}
	return ""
}

// boolFromCompare returns "" when bool value v can only be true because a hash comparison said so.
func boolFromCompare(v ssa.Value, at *ssa.Return, depth int, seen map[ssa.Value]bool) string {
	if depth > 12 || seen[v] {
		return ""
	}
	seen[v] = true
	switch x := v.(type) {
	case *ssa.Const:
		if x.Value != nil && x.Value.Kind() == constant.Bool && constant.BoolVal(x.Value) {
			// constant true: must be dominated by a successful comparison
			fn := at.Parent()
			ok := false
			eachInstr(fn, func(_ *ssa.BasicBlock, _ int, i ssa.Instruction) {
				call, isCall := i.(*ssa.Call)
				if !isCall {
					return
				}
				if _, ref := callRef(call); !c25Compares[ref] {
					return
				}
				for _, bv := range boolResults(call) {
					for _, al := range aliasesOf(bv) {
						for _, e := range condEdges(al, true) {
							if edgeDominates(e, at.Block()) {
								ok = true
							}
						}
					}
				}
			})
			if !ok && fn.Name() == "validatePermissions" && revisionNotAES256(at.Block()) {
				ok = true // "not applicable": /Perms exists for revisions 5 and 6 only
			}
			if !ok {
				return "constant true not dominated by the true edge of a hash comparison"
			}
		}
		return ""
	case *ssa.Call:
		if _, ref := callRef(x); c25Compares[ref] {
			return ""
		}
		return "result of " + instrLabel(x)
	case *ssa.Extract:
		if call, ok := x.Tuple.(*ssa.Call); ok {
			if _, ref := callRef(call); c25Compares[ref] {
				return ""
			}
			return "result of " + instrLabel(call)
		}
	case *ssa.Phi:
		for _, e := range x.Edges {
			if why := boolFromCompare(e, at, depth+1, seen); why != "" {
				return why
			}
		}
		return ""
	case *ssa.UnOp:
		if x.Op == token.MUL {
			if al, ok := cellRoot(x.X).(*ssa.Alloc); ok {
				for _, rf := range *al.Referrers() {
					if st, ok := rf.(*ssa.Store); ok && st.Addr == ssa.Value(al) {
						if why := boolFromCompare(st.Val, at, depth+1, seen); why != "" {
							return why
						}
					}
				}
				return ""
			}
		}
		if x.Op == token.NOT {
			return "negated value"
		}
	case *ssa.BinOp:
		// subtle.ConstantTimeCompare(a,b) == 1
		for _, o := range []ssa.Value{x.X, x.Y} {
			if call, ok := o.(*ssa.Call); ok {
				if _, ref := callRef(call); c25Compares[ref] {
					return ""
				}
			}
		}
		return "computed comparison " + x.String()
	}
	return fmt.Sprintf("unrecognised origin %T", v)
}

// ---------------- round 2 of seeding: C25.R4 / R5 / R6 ----------------

// checkEmptyOwnerCandidate (C25.R4, also run as C26.R5): the AES-256 owner validators refuse an empty candidate before any
// hashing: `len(ctx.OwnerPW) == 0` leads to `return false`, and the hash calls sit on the non-empty edge. Without it a caller
// who supplied only the user password is authenticated as owner of a document whose owner password is the empty string, and
// the permission gate is skipped.
func checkEmptyOwnerCandidate(c *Ctx, rule string) {
	p, r := c.P, c.R
	for _, fid := range []string{"pkg/pdfcpu.validateOwnerPasswordAES256", "pkg/pdfcpu.validateOwnerPasswordAES256Rev6"} {
		fn := p.Func(fid)
		if fn == nil {
			r.Bad(rule, fid, "anchor", "", "UNRESOLVED-ANCHOR")
			continue
		}
		genE := map[Edge][]string{}
		refuse := false
		eachInstr(fn, func(_ *ssa.BasicBlock, _ int, i ssa.Instruction) {
			b, ok := i.(*ssa.BinOp)
			if !ok || (b.Op != token.EQL && b.Op != token.NEQ && b.Op != token.GTR) {
				return
			}
			la := lenArgOf(b.X)
			if la == nil || !strings.HasSuffix(fieldPath(la), "OwnerPW") {
				return
			}
			if k, ok := constInt(b.Y); !ok || k != 0 {
				return
			}
			emptyWhen := b.Op == token.EQL
			for _, e := range condEdges(b, !emptyWhen) {
				genE[e] = append(genE[e], "nonempty")
			}
			for _, e := range condEdges(b, emptyWhen) {
				tgt := e.From.Succs[e.Succ]
				if ret, ok := tgt.Instrs[len(tgt.Instrs)-1].(*ssa.Return); ok {
					// the bool result is false: directly, or through the named result cell
					for _, in := range tgt.Instrs {
						if st, ok := in.(*ssa.Store); ok {
							if cst, ok := st.Val.(*ssa.Const); ok && isBoolType(cst.Type()) && cst.Value != nil && cst.Value.String() == "false" {
								refuse = true
							}
						}
					}
					if cst, ok := ret.Results[0].(*ssa.Const); ok && cst.Value != nil && cst.Value.String() == "false" {
						refuse = true
					}
				}
			}
		})
		ff := NewFactFlow(fn, nil, genE, nil, nil)
		hashed := 0
		bad := ""
		eachInstr(fn, func(_ *ssa.BasicBlock, _ int, i ssa.Instruction) {
			call, ok := i.(*ssa.Call)
			if !ok {
				return
			}
			_, ref := callRef(call)
			if ref == "crypto/sha256.Sum256" || ref == "pkg/pdfcpu.hashRev6" {
				hashed++
				if !ff.Holds(i, "nonempty") {
					bad = p.Pos(call.Pos())
				}
			}
		})
		pos := p.Pos(fn.Pos())
		switch {
		case hashed == 0:
			r.Bad(rule, fid, "empty candidate", pos, "UNRESOLVED-ANCHOR: no hash computation found")
		case !refuse || bad != "":
			r.Bad(rule, fid, "empty candidate", pos, "an empty owner-password candidate is hashed and compared instead of being refused: with a document whose owner password is the empty string, a session that supplied only the user password is authenticated as owner and the permission bits are not enforced")
		default:
			r.OK(rule, fid, "empty candidate", pos, "len(ctx.OwnerPW) == 0 returns false; every hash computation is on the non-empty edge", true)
		}
	}
}

// checkOwnerKeySymmetry (C25.R5): the value the writer (o) and the validator (validateOwnerPassword) hand to key() as owner
// password come from the same fields. A fallback applied on one side only (empty owner -> user password) makes the written /O
// disagree with what validation derives: the document then opens with passwords it should refuse.
func checkOwnerKeySymmetry(c *Ctx) {
	p, r := c.P, c.R
	sig := func(fid string) (string, string) {
		fn := p.Func(fid)
		if fn == nil {
			return "", ""
		}
		out := ""
		pos := ""
		eachInstr(fn, func(_ *ssa.BasicBlock, _ int, i ssa.Instruction) {
			call, ok := i.(*ssa.Call)
			if !ok {
				return
			}
			if _, ref := callRef(call); ref != "pkg/pdfcpu.key" {
				return
			}
			pos = p.Pos(call.Pos())
			var parts []string
			for _, a := range call.Call.Args {
				if b, ok := a.Type().Underlying().(*types.Basic); !ok || b.Kind() != types.String {
					continue
				}
				var fields []string
				for _, lf := range valueLeaves(a) {
					fp := fieldPath(lf)
					if k := strings.LastIndex(fp, "."); k >= 0 {
						fp = fp[k+1:]
					}
					if fp == "" {
						fp = "?"
					}
					fields = append(fields, fp)
				}
				sort.Strings(fields)
				parts = append(parts, strings.Join(dedupStrings(fields), "|"))
			}
			out = strings.Join(parts, " , ")
		})
		return out, pos
	}
	ws, wp := sig("pkg/pdfcpu.o")
	vs, _ := sig("pkg/pdfcpu.validateOwnerPassword")
	switch {
	case ws == "" || vs == "":
		r.Bad("C25.R5", "pkg/pdfcpu.o", "key inputs", wp, "UNRESOLVED-ANCHOR: o() or validateOwnerPassword() no longer calls key()")
	case ws != vs:
		r.Bad("C25.R5", "pkg/pdfcpu.o", "key inputs", wp, "the writer derives the /O key from ("+ws+") but the validator from ("+vs+"): a fallback applied on one side only makes the stored /O authenticate a different password than the one that was set")
	default:
		r.OK("C25.R5", "pkg/pdfcpu.o", "key inputs", wp, "o() and validateOwnerPassword() hand the same fields to key(): ("+ws+")", true)
	}
}

// checkNoDroppedErrors (C25.R6): in pkg/pdfcpu/crypto.go no error result is discarded (an Extract that nobody reads, or a tuple
// whose error component is never extracted). The password preparation (precis profile) and the key derivation report
// unusable input through errors; dropping one turns "rejected" into "empty".
func checkNoDroppedErrors(c *Ctx) {
	p, r := c.P, c.R
	n, badN := 0, 0
	for _, fn := range p.Funcs {
		if !strings.HasSuffix(p.Fset.Position(fn.Pos()).Filename, "pkg/pdfcpu/crypto.go") {
			continue
		}
		fid := FuncID(fn)
		fn := fn
		k := 0
		eachInstr(fn, func(_ *ssa.BasicBlock, _ int, i ssa.Instruction) {
			call, ok := i.(*ssa.Call)
			if !ok {
				return
			}
			tup, isTup := call.Type().(*types.Tuple)
			errIdx := -1
			if isTup {
				for j := 0; j < tup.Len(); j++ {
					if isErrorType(tup.At(j).Type()) {
						errIdx = j
					}
				}
			} else if isErrorType(call.Type()) {
				errIdx = 0
			}
			if errIdx < 0 {
				return
			}
			_, ref := callRef(call)
			if ref == "" {
				ref = "dynamic"
			}
			if c25ErrIgnorable[ref] != "" {
				return
			}
			if call.Call.IsInvoke() && call.Call.Method.Name() == "Write" && strings.HasSuffix(call.Call.Value.Type().String(), "hash.Hash") {
				return // hash.Hash.Write never returns an error (documented)
			}
			n++
			k++
			used := false
			if !isTup {
				used = call.Referrers() != nil && len(*call.Referrers()) > 0
			} else {
				for _, rf := range *call.Referrers() {
					if ex, ok := rf.(*ssa.Extract); ok && ex.Index == errIdx && ex.Referrers() != nil && len(*ex.Referrers()) > 0 {
						used = true
					}
				}
			}
			if !used {
				badN++
				r.Bad("C25.R6", fid, fmt.Sprintf("%s#%d error", ref, k), p.Pos(call.Pos()), "the error result of "+ref+" is discarded: in the password / key path a rejected input then continues as if it were empty or valid")
			}
		})
	}
	if badN == 0 {
		r.OK("C25.R6", "pkg/pdfcpu/crypto.go", "errors", "", fmt.Sprintf("%d calls with an error result, none discarded", n), true)
	}
}

// c25ErrIgnorable: writers whose error is documented as always nil.
var c25ErrIgnorable = map[string]string{
	"hash.Hash.Write":    "hash.Hash.Write never returns an error",
	"bytes.Buffer.Write": "always nil", "bytes.Buffer.WriteByte": "always nil", "bytes.Buffer.WriteString": "always nil",
	"crypto/rand.Read": "",
}

// ---------------- C25.R7 (round 3 of seeding): a requested password change is never dropped ----------------

// provablyNonNil: v is an address that cannot be nil — a local's or field's address, or a module function's
// result all of whose return values are such (followed to depth 3).
func provablyNonNil(v ssa.Value, d int, seen map[ssa.Value]bool) string {
	if d > 3 {
		return "call depth exceeded"
	}
	if seen[v] {
		return ""
	}
	seen[v] = true
	switch x := v.(type) {
	case *ssa.Alloc, *ssa.FieldAddr, *ssa.IndexAddr, *ssa.Global, *ssa.MakeClosure, *ssa.MakeMap, *ssa.MakeSlice:
		return ""
	case *ssa.Const:
		if x.IsNil() {
			return "a nil constant"
		}
		return ""
	case *ssa.Phi:
		for _, e := range x.Edges {
			if why := provablyNonNil(e, d, seen); why != "" {
				return why
			}
		}
		return ""
	case *ssa.ChangeType:
		return provablyNonNil(x.X, d, seen)
	case *ssa.Call:
		callee := staticCallee(x)
		if callee == nil || !isSubject(callee) || len(callee.Blocks) == 0 {
			return "the result of " + x.Call.Value.Name()
		}
		for _, ret := range returnsOf(callee) {
			if len(ret.Results) == 0 {
				continue
			}
			if why := provablyNonNil(ret.Results[0], d+1, seen); why != "" {
				return callee.Name() + " can return " + why
			}
		}
		return ""
	case *ssa.UnOp:
		if x.Op == token.MUL {
			// a copy of the same field of another configuration is as good as the original
			if fa, ok := x.X.(*ssa.FieldAddr); ok {
				if f := structField(fa.X.Type(), fa.Field); f != nil && (f.Name() == "UserPWNew" || f.Name() == "OwnerPWNew") {
					return ""
				}
			}
		}
	}
	return "a value that may be nil: " + v.String()
}

// checkPasswordChangeRequested: write.go reads a nil UserPWNew / OwnerPWNew as "no change requested". The API entry
// points that set the command to CHANGEUPW / CHANGEOPW therefore store a provably non-nil pointer, whatever the
// new password is (the empty password is a legitimate new password: it removes the open password).
func checkPasswordChangeRequested(c *Ctx) {
	p, r := c.P, c.R
	n := 0
	for _, fn := range p.Funcs {
		fid := FuncID(fn)
		if !strings.HasPrefix(fid, "pkg/api.") && !strings.HasPrefix(fid, "pkg/cli.") && !strings.HasPrefix(fid, "cmd/") {
			continue
		}
		fn := fn
		eachInstr(fn, func(_ *ssa.BasicBlock, _ int, i ssa.Instruction) {
			st, ok := i.(*ssa.Store)
			if !ok {
				return
			}
			fa, ok := st.Addr.(*ssa.FieldAddr)
			if !ok {
				return
			}
			f := structField(fa.X.Type(), fa.Field)
			if f == nil || (f.Name() != "UserPWNew" && f.Name() != "OwnerPWNew") {
				return
			}
			n++
			if why := provablyNonNil(st.Val, 0, map[ssa.Value]bool{}); why != "" {
				r.Bad("C25.R7", fid, "store "+f.Name(), p.Pos(st.Pos()), "the pointer stored into "+f.Name()+" can be nil ("+why+"): the writer reads nil as 'no change requested', so the password change is silently skipped and the old password keeps working")
			} else {
				r.OK("C25.R7", fid, "store "+f.Name(), p.Pos(st.Pos()), "a non-nil pointer is stored whatever the new password is", true)
			}
		})
	}
	if n == 0 {
		r.Bad("C25.R7", "pkg/api", "anchor", "", "UNRESOLVED-ANCHOR: no store to Configuration.UserPWNew / OwnerPWNew in pkg/api, pkg/cli, cmd")
	}
}

// revisionNotAES256: blk is reached only where the encryption revision was compared unequal to 5 and to 6.
func revisionNotAES256(blk *ssa.BasicBlock) bool {
	fn := blk.Parent()
	got := map[int64]bool{}
	eachInstr(fn, func(_ *ssa.BasicBlock, _ int, i ssa.Instruction) {
		b, ok := i.(*ssa.BinOp)
		if !ok || (b.Op != token.NEQ && b.Op != token.EQL) {
			return
		}
		k, ok := constInt(b.Y)
		val := b.X
		if !ok {
			k, ok = constInt(b.X)
			val = b.Y
		}
		if !ok || (k != 5 && k != 6) {
			return
		}
		ld, ok := val.(*ssa.UnOp)
		if !ok || ld.Op != token.MUL {
			return
		}
		fa, ok := ld.X.(*ssa.FieldAddr)
		if !ok {
			return
		}
		if f := structField(fa.X.Type(), fa.Field); f == nil || f.Name() != "R" {
			return
		}
		for _, e := range condEdges(b, b.Op == token.NEQ) {
			if edgeDominates(e, blk) {
				got[k] = true
			}
		}
	})
	return got[5] && got[6]
}

// ---------------- C25.R9 (round 4 seed C25-H): configurations are copies of the template ----------------

// checkDefaultConfigurationCopied: passwords travel in the Configuration (UserPW, OwnerPW and the new-password
// pointers). model.NewDefaultConfiguration is where every configuration starts; it must hand out a copy of the
// package-level template loadedDefaultConfig (a pointer to a local, or another constructor's result), never the
// template itself: otherwise the passwords one operation stores are inherited by every configuration made later in
// the process, and an operation without a password is authorised by someone else's.
func checkDefaultConfigurationCopied(c *Ctx) {
	p, r := c.P, c.R
	const fid = "pkg/pdfcpu/model.NewDefaultConfiguration"
	fn := p.Func(fid)
	if fn == nil {
		r.Bad("C25.R9", fid, "anchor", "", "UNRESOLVED-ANCHOR")
		return
	}
	n := 0
	for _, ret := range returnsOf(fn) {
		if len(ret.Results) != 1 {
			continue
		}
		n++
		construct := fmt.Sprintf("return#%d", n)
		shared := ""
		for _, l := range valueLeaves(ret.Results[0]) {
			if ld, ok := l.(*ssa.UnOp); ok && ld.Op == token.MUL {
				if g, ok := ld.X.(*ssa.Global); ok {
					shared = g.Name()
				}
			}
			if g, ok := l.(*ssa.Global); ok {
				shared = g.Name()
			}
		}
		if shared != "" {
			r.Bad("C25.R9", fid, construct, posOrFn(p, ret, fn), "the package-level template "+shared+" itself is handed out as a new configuration: passwords stored into it by one operation are inherited by every configuration created afterwards, so a later operation without (or with a wrong) password is authorised")
		} else {
			r.OK("C25.R9", fid, construct, posOrFn(p, ret, fn), "a fresh value (copy of the template or a constructor's result)", true)
		}
	}
	if n == 0 {
		r.Bad("C25.R9", fid, "returns", p.Pos(fn.Pos()), "UNDECIDED: no return with one result")
	}
}
