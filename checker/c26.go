package main

import (
	"sort"
	"fmt"
	"go/constant"
	"go/token"
	"strings"

	"golang.org/x/tools/go/ssa"
)

func runC26(c *Ctx) {
	p, r := c.P, c.R
	r.MinInst["C26.R1"] = 2
	r.MinInst["C26.R7"] = 3
	checkPermsBindsP(c)
	r.MinInst["C26.R2"] = 6
	r.MinInst["C26.R3"] = 60
	// ---- R1: handlePermissions
	if fn := p.Func("pkg/pdfcpu.handlePermissions"); fn == nil {
		r.Bad("C26.R1", "pkg/pdfcpu.handlePermissions", "anchor", "", "UNRESOLVED-ANCHOR")
	} else {
		// edge where both passwords are empty: the `&&` chain OwnerPW == "" && UserPW == ""
		empties := map[Edge]bool{}
		eachInstr(fn, func(_ *ssa.BasicBlock, _ int, i ssa.Instruction) {
			b, ok := i.(*ssa.BinOp)
			if !ok || b.Op != token.EQL {
				return
			}
			if s, ok := constString(b.Y); ok && s == "" && strings.HasSuffix(fieldPath(b.X), "UserPW") {
				// second operand of the && : its true edge means both empty only if the OwnerPW test dominates it
				for _, e := range condEdges(b, true) {
					// require an OwnerPW == "" true edge dominating this block
					okDom := false
					eachInstr(fn, func(_ *ssa.BasicBlock, _ int, j ssa.Instruction) {
						if b2, ok := j.(*ssa.BinOp); ok && b2.Op == token.EQL {
							if s2, ok := constString(b2.Y); ok && s2 == "" && strings.HasSuffix(fieldPath(b2.X), "OwnerPW") {
								for _, e2 := range condEdges(b2, true) {
									if edgeDominates(e2, b.Block()) {
										okDom = true
									}
								}
							}
						}
					})
					if okDom {
						empties[e] = true
					}
				}
			}
		})
		runFlowRuleOn(c, FlowRule{
			ID: "C26.R1",
			Gen: []GenSpec{
				{Fact: "permitted", On: Pred{Calls: []string{"pkg/pdfcpu.hasNeededPermissions"}}, OnTrue: true},
				{Fact: "permitted", edges: empties},
			},
			Need: []NeedSpec{{Fact: "permitted", At: Pred{NilReturn: true}, Why: "handlePermissions lets a user-password-only access proceed without hasNeededPermissions(ctx.Cmd, ctx.E) having returned true"}},
		}, fn)
		// arguments: ctx.Cmd and ctx.E
		eachInstr(fn, func(_ *ssa.BasicBlock, _ int, i ssa.Instruction) {
			if call, ok := i.(*ssa.Call); ok {
				if _, ref := callRef(call); ref == "pkg/pdfcpu.hasNeededPermissions" {
					a := call.Call.Args
					if len(a) == 2 && strings.HasSuffix(fieldPath(a[0]), "Cmd") && strings.HasSuffix(fieldPath(a[1]), "E") {
						r.OK("C26.R1", FuncID(fn), "args", p.Pos(call.Pos()), "hasNeededPermissions(ctx.Cmd, ctx.E)", false)
					} else {
						r.Bad("C26.R1", FuncID(fn), "args", p.Pos(call.Pos()), "hasNeededPermissions is not called with the context's own command mode and encryption record")
					}
				}
			}
		})
	}
	// user-only path ends in handlePermissions
	if fn := p.Func("pkg/pdfcpu.setupEncryptionKey"); fn != nil {
		var userCall *ssa.Call
		eachInstr(fn, func(_ *ssa.BasicBlock, _ int, i ssa.Instruction) {
			if call, ok := i.(*ssa.Call); ok {
				if _, ref := callRef(call); ref == "pkg/pdfcpu.validateUserPassword" {
					userCall = call
				}
			}
		})
		ok := false
		if userCall != nil {
			for _, ret := range returnsOf(fn) {
				k, has := returnErrKind(ret)
				if has && k == errNonNil {
					continue
				}
				after := false
				for _, x := range instrsAfter(userCall) {
					if x == ssa.Instruction(ret) {
						after = true
					}
				}
				if !after {
					continue
				}
				if tailReturnsMatching(ret, Pred{Calls: []string{"pkg/pdfcpu.handlePermissions"}}) {
					ok = true
				} else {
					ok = false
					r.Bad("C26.R1", FuncID(fn), "user-only-exit", posOrFn(p, ret, fn), "after the user password was accepted setupEncryptionKey can succeed without returning handlePermissions' verdict")
				}
			}
		}
		if ok {
			r.OK("C26.R1", FuncID(fn), "user-only-exit", p.Pos(fn.Pos()), "every success exit after validateUserPassword is `return handlePermissions(ctx)`", true)
		} else if userCall == nil {
			r.Bad("C26.R1", FuncID(fn), "user-only-exit", p.Pos(fn.Pos()), "UNRESOLVED-ANCHOR: validateUserPassword call not found")
		}
	} else {
		r.Bad("C26.R1", "pkg/pdfcpu.setupEncryptionKey", "anchor", "", "UNRESOLVED-ANCHOR: function not found")
	}
	// ---- R2: masks
	type maskInfo struct{ lo, hi int64 }
	masks := map[string]maskInfo{}
	for _, spec := range []struct{ fn, field string }{{"pkg/pdfcpu.maskExtract", "extract"}, {"pkg/pdfcpu.maskModify", "modify"}} {
		fn := p.Func(spec.fn)
		if fn == nil {
			r.Bad("C26.R2", spec.fn, "anchor", "", "UNRESOLVED-ANCHOR")
			continue
		}
		// (a) perm table lookup keyed by the mode parameter, field read
		lookup, fieldRead := false, false
		var revCmp *ssa.BinOp
		var revFn *ssa.Function
		eachInstr(fn, func(_ *ssa.BasicBlock, _ int, i ssa.Instruction) {
			switch x := i.(type) {
			case *ssa.Lookup:
				if prm, ok := x.Index.(*ssa.Parameter); ok && prm == fn.Params[0] {
					if ld, ok := x.X.(*ssa.UnOp); ok {
						if g, ok := ld.X.(*ssa.Global); ok && g.Name() == "perm" {
							lookup = true
						}
					}
				}
			case *ssa.Field:
				if f := structField(x.X.Type(), x.Field); f != nil && f.Name() == spec.field {
					fieldRead = true
				}
			case *ssa.FieldAddr:
				if f := structField(x.X.Type(), x.Field); f != nil && f.Name() == spec.field {
					fieldRead = true
				}
			case *ssa.BinOp:
				if derivesFromParam(x.X, fn.Params[1]) || derivesFromParam(x.Y, fn.Params[1]) {
					revCmp, revFn = x, fn
				}
			case *ssa.Call:
				// helper taking the revision
				if g := staticCallee(x); g != nil && isSubject(g) && len(x.Call.Args) == 1 && derivesFromParam(x.Call.Args[0], fn.Params[1]) {
					eachInstr(g, func(_ *ssa.BasicBlock, _ int, j ssa.Instruction) {
						if b, ok := j.(*ssa.BinOp); ok && (derivesFromParam(b.X, g.Params[0]) || derivesFromParam(b.Y, g.Params[0])) {
							revCmp, revFn = b, g
						}
					})
				}
			}
		})
		if lookup && fieldRead {
			r.OK("C26.R2", spec.fn, "table", p.Pos(fn.Pos()), "reads perm[mode]."+spec.field+" for its own mode argument", true)
		} else {
			r.Bad("C26.R2", spec.fn, "table", p.Pos(fn.Pos()), "the mask function no longer reads perm[mode]."+spec.field+" for the mode it was given")
		}
		// (b) revision boundary
		if revCmp == nil {
			r.Bad("C26.R2", spec.fn, "revision-test", p.Pos(fn.Pos()), "no comparison on the security handler revision found")
		} else {
			var k int64
			var haveK, revLeft bool
			if n, ok := constInt(revCmp.Y); ok {
				k, haveK, revLeft = n, true, true
			} else if n, ok := constInt(revCmp.X); ok {
				k, haveK, revLeft = n, true, false
			}
			if !haveK {
				r.Bad("C26.R2", spec.fn, "revision-test", p.Pos(revCmp.Pos()), "revision is not compared with a constant")
			} else {
				eval := func(rev int64) bool {
					a, b := rev, k
					if !revLeft {
						a, b = k, rev
					}
					switch revCmp.Op {
					case token.GEQ:
						return a >= b
					case token.GTR:
						return a > b
					case token.LEQ:
						return a <= b
					case token.LSS:
						return a < b
					case token.EQL:
						return a == b
					case token.NEQ:
						return a != b
					}
					return false
				}
				v2 := eval(2)
				okB := true
				for rev := int64(3); rev <= 6; rev++ {
					if eval(rev) == v2 {
						okB = false
					}
				}
				_ = revFn
				if okB {
					r.OK("C26.R2", spec.fn, "revision-test", p.Pos(revCmp.Pos()), fmt.Sprintf("comparison `rev %s %d` separates revision 2 from revisions 3..6", revCmp.Op, k), true)
				} else {
					r.Bad("C26.R2", spec.fn, "revision-test", p.Pos(revCmp.Pos()), fmt.Sprintf("the revision test `%s %d` does not separate revision 2 from all of 3,4,5,6: some revision >= 3 document would be judged with the revision-2 bit layout (or vice versa)", revCmp.Op, k))
				}
			}
		}
		// (c) constants returned
		var consts []int64
		for _, ret := range returnsOf(fn) {
			if n, ok := constInt(ret.Results[0]); ok {
				consts = append(consts, n)
			} else {
				r.Bad("C26.R2", spec.fn, "mask-constants", posOrFn(p, ret, fn), "a mask is computed instead of being one of the layout constants")
			}
		}
		var nz []int64
		for _, n := range consts {
			if n != 0 {
				nz = append(nz, n)
			}
		}
		single := func(n int64) bool { return n > 0 && n&(n-1) == 0 }
		if len(nz) == 2 && nz[0] != nz[1] && single(nz[0]) && single(nz[1]) {
			lo, hi := nz[0], nz[1]
			if lo > hi {
				lo, hi = hi, lo
			}
			masks[spec.field] = maskInfo{lo, hi}
			r.OK("C26.R2", spec.fn, "mask-constants", p.Pos(fn.Pos()), fmt.Sprintf("layout masks %#x (rev 2) / %#x (rev >= 3), zero returns: %d", lo, hi, len(consts)-2), true)
		} else {
			r.Bad("C26.R2", spec.fn, "mask-constants", p.Pos(fn.Pos()), fmt.Sprintf("expected exactly two distinct single-bit layout masks, found %v", nz))
		}
	}
	if a, ok1 := masks["extract"]; ok1 {
		if b, ok2 := masks["modify"]; ok2 {
			if a.lo != b.lo && a.hi != b.hi {
				r.OK("C26.R2", "pkg/pdfcpu.maskExtract", "distinct-from-modify", "", fmt.Sprintf("extract %#x/%#x vs modify %#x/%#x", a.lo, a.hi, b.lo, b.hi), false)
			} else {
				r.Bad("C26.R2", "pkg/pdfcpu.maskExtract", "distinct-from-modify", "", "extract and modify use the same permission bit in one layout")
			}
		}
	}
	// hasNeededPermissions
	if fn := p.Func("pkg/pdfcpu.hasNeededPermissions"); fn == nil {
		r.Bad("C26.R2", "pkg/pdfcpu.hasNeededPermissions", "anchor", "", "UNRESOLVED-ANCHOR")
	} else {
		for _, mref := range []string{"pkg/pdfcpu.maskExtract", "pkg/pdfcpu.maskModify"} {
			found := false
			eachInstr(fn, func(_ *ssa.BasicBlock, _ int, i ssa.Instruction) {
				call, ok := i.(*ssa.Call)
				if !ok {
					return
				}
				if _, ref := callRef(call); ref != mref {
					return
				}
				found = true
				a := call.Call.Args
				if a[0] != ssa.Value(fn.Params[0]) || !strings.HasSuffix(fieldPath(a[1]), "R") {
					r.Bad("C26.R2", FuncID(fn), mref+" args", p.Pos(call.Pos()), "the mask is not computed for the checked mode and the document's own revision (enc.R)")
					return
				}
				// P & m == 0 -> return false
				okShape := false
				for _, rf := range *call.Referrers() {
					and, ok := rf.(*ssa.BinOp)
					if !ok || and.Op != token.AND {
						continue
					}
					other := and.X
					if other == ssa.Value(call) {
						other = and.Y
					}
					if !strings.HasSuffix(fieldPath(other), "P") {
						continue
					}
					for _, rf2 := range *and.Referrers() {
						cmp, ok := rf2.(*ssa.BinOp)
						if !ok || cmp.Op != token.EQL {
							continue
						}
						if n, ok := constInt(cmp.Y); !ok || n != 0 {
							continue
						}
						for _, e := range condEdges(cmp, true) {
							tgt := e.From.Succs[e.Succ]
							if ret, ok := tgt.Instrs[len(tgt.Instrs)-1].(*ssa.Return); ok {
								if cst, ok := ret.Results[0].(*ssa.Const); ok && cst.Value != nil && cst.Value.Kind() == constant.Bool && !constant.BoolVal(cst.Value) {
									okShape = true
								}
							}
						}
					}
				}
				if okShape {
					r.OK("C26.R2", FuncID(fn), mref+" check", p.Pos(call.Pos()), "enc.P & mask == 0 returns false", true)
				} else {
					r.Bad("C26.R2", FuncID(fn), mref+" check", p.Pos(call.Pos()), "the result of the mask function is not tested as `enc.P & m == 0 -> return false`")
				}
			})
			if !found {
				r.Bad("C26.R2", FuncID(fn), mref, p.Pos(fn.Pos()), "hasNeededPermissions no longer consults "+mref)
			}
		}
	}
	// ---- R3: conf.Cmd set on every path before the reader gets conf
	checkCmdSetBeforeRead(c)
	c.R.MinInst["C26.R5"] = 2
	checkEmptyOwnerCandidate(c, "C26.R5")
	c.R.MinInst["C26.R4"] = 40
	checkDispatchedModeIdentity(c)
}

func derivesFromParam(v ssa.Value, prm *ssa.Parameter) bool {
	if v == ssa.Value(prm) {
		return true
	}
	if ld, ok := v.(*ssa.UnOp); ok && ld.Op == token.MUL {
		if al, ok := ld.X.(*ssa.Alloc); ok {
			for _, rf := range *al.Referrers() {
				if st, ok := rf.(*ssa.Store); ok && st.Addr == ssa.Value(al) && st.Val == ssa.Value(prm) {
					return true
				}
			}
		}
	}
	return false
}

func checkCmdSetBeforeRead(c *Ctx) {
	p, r := c.P, c.R
	for _, fn := range p.Funcs {
		fid := FuncID(fn)
		if !strings.HasPrefix(fid, "pkg/api.") || fn.Parent() != nil {
			continue
		}
		// stores of a constant CommandMode into <conf>.Cmd where conf is a *model.Configuration parameter of fn
		var confParam *ssa.Parameter
		for _, prm := range fn.Params {
			if typeNameOf(prm.Type()) == "Configuration" {
				confParam = prm
			}
		}
		if confParam == nil {
			continue
		}
		stores := map[ssa.Instruction]bool{}
		mode := ""
		eachInstr(fn, func(_ *ssa.BasicBlock, _ int, i ssa.Instruction) {
			st, ok := i.(*ssa.Store)
			if !ok {
				return
			}
			fa, ok := st.Addr.(*ssa.FieldAddr)
			if !ok {
				return
			}
			f := structField(fa.X.Type(), fa.Field)
			if f == nil || f.Name() != "Cmd" || typeNameOf(fa.X.Type()) != "Configuration" {
				return
			}
			if cst, ok := st.Val.(*ssa.Const); ok {
				if n := commandModeName(p, cst); n != "" {
					stores[i] = true
					mode = n
				}
			}
		})
		if len(stores) == 0 {
			continue
		}
		// readers: calls that receive the configuration (the conf cell/phi) after which the document has been read
		ff := NewFactFlow(fn, func(i ssa.Instruction) []string {
			if stores[i] {
				return []string{"cmd-set"}
			}
			return nil
		}, nil, nil, nil)
		n := 0
		eachInstr(fn, func(_ *ssa.BasicBlock, _ int, i ssa.Instruction) {
			call, ok := i.(*ssa.Call)
			if !ok {
				return
			}
			g := staticCallee(call)
			if g == nil || !isSubject(g) {
				return
			}
			gid := FuncID(g)
			if !(strings.Contains(gid, "Read") || strings.Contains(gid, "read")) {
				return
			}
			passes := false
			for _, a := range call.Call.Args {
				if typeNameOf(a.Type()) == "Configuration" {
					passes = true
				}
			}
			if !passes {
				return
			}
			n++
			construct := fmt.Sprintf("%s before %s#%d", mode, gid, n)
			if ff.Holds(call, "cmd-set") {
				r.OK("C26.R3", fid, construct, p.Pos(call.Pos()), "conf.Cmd is assigned on every path before the configuration reaches the reader", true)
			} else {
				r.Bad("C26.R3", fid, construct, p.Pos(call.Pos()), "conf.Cmd = model."+mode+" is not executed on every path before the document is read with this configuration: with a caller-supplied configuration the permission check (and owner-password requirement) would run for a stale command mode")
			}
		})
	}
}

func init() {
	extraDebug["c26modes"] = func(p *Program) {
		for _, fn := range p.Funcs {
			fid := FuncID(fn)
			if !strings.HasPrefix(fid, "pkg/api.") || fn.Parent() != nil {
				continue
			}
			var modes []string
			eachInstr(fn, func(_ *ssa.BasicBlock, _ int, i ssa.Instruction) {
				st, ok := i.(*ssa.Store)
				if !ok {
					return
				}
				fa, ok := st.Addr.(*ssa.FieldAddr)
				if !ok {
					return
				}
				f := structField(fa.X.Type(), fa.Field)
				if f == nil || f.Name() != "Cmd" || typeNameOf(fa.X.Type()) != "Configuration" {
					return
				}
				if cst, ok := st.Val.(*ssa.Const); ok {
					if n := commandModeName(p, cst); n != "" {
						modes = append(modes, n)
					}
				}
			})
			if len(modes) > 0 {
				fmt.Printf("%-50s %s\n", fid, strings.Join(modes, ","))
			}
		}
	}
}

// ---------------- C26.R4 (round 2 of seeding): the mode an operation is checked under is the mode it was dispatched for ----------------
//
// cli.Dispatch sends command mode M to a handler; the handler calls pkg/api functions which (re)assign conf.Cmd before the
// document is read, and the permission table is indexed by conf.Cmd. Every constant mode stored into a Configuration by the
// pkg/api functions reachable from the handler of M must be one of the modes that handler is dispatched for: reading the
// document of a TRIM through a helper that stores SPLIT makes the permission check run for the wrong command.
// permRows extracts the permission table (mode -> required {extract, modify} bits) from the initialisation of pkg/pdfcpu.perm.
func permRows(p *Program) map[string][2]int64 {
	out := map[string][2]int64{}
	for _, fn := range p.Funcs {
		if !strings.HasPrefix(FuncID(fn), "pkg/pdfcpu.init") {
			continue
		}
		eachInstr(fn, func(_ *ssa.BasicBlock, _ int, i ssa.Instruction) {
			mu, ok := i.(*ssa.MapUpdate)
			if !ok {
				return
			}
			cst, ok := mu.Key.(*ssa.Const)
			if !ok {
				return
			}
			mode := commandModeName(p, cst)
			if mode == "" {
				return
			}
			ld, ok := mu.Value.(*ssa.UnOp)
			if !ok {
				return
			}
			al, ok := ld.X.(*ssa.Alloc)
			if !ok {
				return
			}
			var row [2]int64
			n := 0
			for _, rf := range *al.Referrers() {
				fa, ok := rf.(*ssa.FieldAddr)
				if !ok || fa.Field > 1 {
					continue
				}
				for _, r2 := range *fa.Referrers() {
					if st, ok := r2.(*ssa.Store); ok {
						if k, ok := constInt(st.Val); ok {
							row[fa.Field] = k
							n++
						}
					}
				}
			}
			if n > 0 || true {
				out[mode] = row
			}
		})
	}
	return out
}

// c26ModeAliases: handler -> modes it may legitimately read a document under besides its own, with the reason.
var c26ModeAliases = map[string]map[string]string{
	"pkg/cli.MultiFillFormFields": {
		"MERGECREATE": "merge mode merges pdfcpu's own intermediate outputs (written a moment ago without encryption), not the user's document",
		"MERGEAPPEND": "see MERGECREATE (mergeConfiguration stores one of the two)",
	},
}

func checkDispatchedModeIdentity(c *Ctx) {
	p, r := c.P, c.R
	cg := c.CG()
	// 1. handler -> modes, from the dispatch functions of pkg/cli
	handlerModes := map[*ssa.Function]map[string]bool{}
	for _, fn := range p.Funcs {
		fid := FuncID(fn)
		if !strings.HasPrefix(fid, "pkg/cli.dispatch") || fn.Parent() != nil {
			continue
		}
		eachInstr(fn, func(_ *ssa.BasicBlock, _ int, i ssa.Instruction) {
			b, ok := i.(*ssa.BinOp)
			if !ok || b.Op != token.EQL {
				return
			}
			cst, ok := b.Y.(*ssa.Const)
			if !ok {
				return
			}
			mode := commandModeName(p, cst)
			if mode == "" {
				return
			}
			for _, e := range condEdges(b, true) {
				start := e.From.Succs[e.Succ]
				blocks := reachableBlocks(start)
				blocks[start] = true
				for blk := range blocks {
					for _, in := range blk.Instrs {
						call, ok := in.(*ssa.Call)
						if !ok {
							continue
						}
						h := staticCallee(call)
						if h == nil || !strings.HasPrefix(FuncID(h), "pkg/cli.") {
							continue
						}
						if handlerModes[h] == nil {
							handlerModes[h] = map[string]bool{}
						}
						handlerModes[h][mode] = true
					}
				}
			}
		})
	}
	// handlers registered directly in the dispatch table (mode -> handler)
	for _, fn := range p.Funcs {
		if !strings.HasPrefix(FuncID(fn), "pkg/cli.init") {
			continue
		}
		eachInstr(fn, func(_ *ssa.BasicBlock, _ int, i ssa.Instruction) {
			mu, ok := i.(*ssa.MapUpdate)
			if !ok {
				return
			}
			cst, ok := mu.Key.(*ssa.Const)
			if !ok {
				return
			}
			mode := commandModeName(p, cst)
			h := funcValue(mu.Value)
			if mode == "" || h == nil || strings.HasPrefix(FuncID(h), "pkg/cli.dispatch") {
				return
			}
			if handlerModes[h] == nil {
				handlerModes[h] = map[string]bool{}
			}
			handlerModes[h][mode] = true
		})
	}
	if len(handlerModes) < 40 {
		r.Bad("C26.R4", "pkg/cli.Dispatch", "anchor", "", fmt.Sprintf("UNRESOLVED-ANCHOR: only %d command handlers recovered from the dispatch switches", len(handlerModes)))
		return
	}
	// 2. constant mode stores per pkg/api function
	stores := map[*ssa.Function]map[string]string{}
	for _, fn := range p.Funcs {
		if !strings.HasPrefix(FuncID(fn), "pkg/api.") {
			continue
		}
		fn := fn
		eachInstr(fn, func(_ *ssa.BasicBlock, _ int, i ssa.Instruction) {
			st, ok := i.(*ssa.Store)
			if !ok {
				return
			}
			fa, ok := st.Addr.(*ssa.FieldAddr)
			if !ok {
				return
			}
			f := structField(fa.X.Type(), fa.Field)
			if f == nil || f.Name() != "Cmd" || typeNameOf(fa.X.Type()) != "Configuration" {
				return
			}
			for _, cst := range modeConstants(st.Val, 0) {
				if n := commandModeName(p, cst); n != "" {
					if stores[fn] == nil {
						stores[fn] = map[string]string{}
					}
					stores[fn][n] = p.Pos(st.Pos())
				}
			}
		})
	}
	rows := permRows(p)
	// ---- R6 (round 3 of seeding): the permission table is total over the modes the API sets
	// maskExtract / maskModify answer "nothing needed" for a mode that has no row, so a dropped row silently
	// opens the command to user-password-only access.
	{
		seenMode := map[string]string{}
		for _, m := range stores {
			for mode, pos := range m {
				if _, ok := seenMode[mode]; !ok {
					seenMode[mode] = pos
				}
			}
		}
		var modes []string
		for m := range seenMode {
			modes = append(modes, m)
		}
		sort.Strings(modes)
		r.MinInst["C26.R6"] = 60
		for _, m := range modes {
			if _, ok := rows[m]; ok {
				r.OK("C26.R6", "pkg/pdfcpu.perm", "row "+m, seenMode[m], "the mode set by the API has a row in the permission table", true)
			} else if why, ok := c26NoPermissionRow[m]; ok {
				r.OK("C26.R6", "pkg/pdfcpu.perm", "row "+m, seenMode[m], "no row by design: "+why, false)
			} else {
				r.Bad("C26.R6", "pkg/pdfcpu.perm", "row "+m, seenMode[m], "pkg/api stores conf.Cmd = model."+m+" but the permission table has no row for it: maskExtract/maskModify return 0 for an unknown mode, so the command runs on a restricted document opened with the user password")
			}
		}
	}
	if len(rows) < 50 {
		r.Bad("C26.R4", "pkg/pdfcpu.perm", "anchor", "", fmt.Sprintf("UNRESOLVED-ANCHOR: only %d rows of the permission table extracted", len(rows)))
	}
	// 3. per handler: api functions reachable through pkg/cli and pkg/api code
	var handlers []*ssa.Function
	for h := range handlerModes {
		handlers = append(handlers, h)
	}
	sort.Slice(handlers, func(i, j int) bool { return FuncID(handlers[i]) < FuncID(handlers[j]) })
	for _, h := range handlers {
		modes := handlerModes[h]
		var ml []string
		for m := range modes {
			ml = append(ml, m)
		}
		sort.Strings(ml)
		seen := map[*ssa.Function]bool{}
		stack := []*ssa.Function{h}
		var bad []string
		nStores := 0
		for len(stack) > 0 {
			f := stack[len(stack)-1]
			stack = stack[:len(stack)-1]
			if seen[f] {
				continue
			}
			seen[f] = true
			for m, pos := range stores[f] {
				nStores++
				// reading under another mode of the same family is accepted when that mode's row demands at least what
				// every dispatched mode demands (never weaker)
				asStrict := len(rows) > 0
				for own := range modes {
					ro, ok1 := rows[own]
					rm, ok2 := rows[m]
					if !ok1 || !ok2 || rm[0] < ro[0] || rm[1] < ro[1] {
						asStrict = false
					}
				}
				if _, alias := c26ModeAliases[FuncID(h)][m]; !modes[m] && !alias && !asStrict {
					bad = append(bad, fmt.Sprintf("%s stores %s (%s)", FuncID(f), m, pos))
				}
			}
			for _, g := range cg.Out[f] {
				gid := FuncID(g)
				if strings.HasPrefix(gid, "pkg/cli.") || strings.HasPrefix(gid, "pkg/api.") {
					stack = append(stack, g)
				}
			}
		}
		sort.Strings(bad)
		pos := p.Pos(h.Pos())
		if len(bad) == 0 {
			r.OK("C26.R4", FuncID(h), "modes "+strings.Join(ml, ","), pos, fmt.Sprintf("%d constant conf.Cmd stores in the pkg/api code reachable from this handler, all within the modes it is dispatched for", nStores), nStores > 0)
		} else {
			r.Bad("C26.R4", FuncID(h), "modes "+strings.Join(ml, ","), pos, "dispatched for "+strings.Join(ml, ",")+" but the document is read under another command mode: "+strings.Join(bad, "; ")+" — the permission table is consulted for the wrong command")
		}
	}
}

func init() {
	extraDebug["c26dispatch"] = func(p *Program) {
		n := 0
		for _, fn := range p.Funcs {
			fid := FuncID(fn)
			if !strings.HasPrefix(fid, "pkg/cli.dispatch") {
				continue
			}
			n++
			cmp := 0
			eachInstr(fn, func(_ *ssa.BasicBlock, _ int, i ssa.Instruction) {
				if b, ok := i.(*ssa.BinOp); ok && b.Op == token.EQL {
					if cst, ok := b.Y.(*ssa.Const); ok {
						cmp++
						fmt.Println(fid, cst, commandModeName(p, cst), len(condEdges(b, true)))
					}
				}
			})
		}
		fmt.Println("dispatch funcs", n)
	}
}

// c26NoPermissionRow: modes the API sets that have no row in the permission table, with the reason.
// The property quantifies over "every command mode in the permission table"; these eleven modes are not classified
// by pdfcpu at the pinned commit (maskExtract/maskModify answer "nothing needed" for them). They are frozen here so
// that a row DROPPED from the table, or a new mode added without one, is reported.
var c26NoPermissionRow = map[string]string{
	"ENCRYPT":             "unclassified at the pinned commit (an unencrypted input has no permissions to check)",
	"DECRYPT":             "unclassified at the pinned commit (decryption is gated by the password check itself)",
	"CHANGEUPW":           "unclassified at the pinned commit (gated by needsOwnerAndUserPassword, C25.R2)",
	"CHANGEOPW":           "unclassified at the pinned commit (gated by needsOwnerAndUserPassword, C25.R2)",
	"VALIDATESIGNATURES":  "unclassified at the pinned commit (read-only)",
	"CUT":                 "unclassified at the pinned commit (observation: writes new documents from the input's pages)",
	"NDOWN":               "unclassified at the pinned commit (observation: writes new documents from the input's pages)",
	"POSTER":              "unclassified at the pinned commit (observation: writes new documents from the input's pages)",
	"RESIZE":              "unclassified at the pinned commit (observation: modifies pages, unlike ROTATE/ZOOM it has no row)",
	"MULTIFILLFORMFIELDS": "unclassified at the pinned commit (observation: FILLFORMFIELDS needs modify rights, the multi-fill variant has no row)",
	"REMOVESIGNATURES":    "unclassified at the pinned commit (observation: modifies the document, no row)",
}

// modeConstants: the constants a stored command mode can be — directly, through φ, or as the results of a module
// function that picks the mode (addAttachmentsCommandMode(coll)).
func modeConstants(v ssa.Value, d int) []*ssa.Const {
	if d > 3 {
		return nil
	}
	var out []*ssa.Const
	for _, l := range valueLeaves(v) {
		switch x := l.(type) {
		case *ssa.Const:
			out = append(out, x)
		case *ssa.Call:
			callee := staticCallee(x)
			if callee == nil || !isSubject(callee) {
				continue
			}
			for _, ret := range returnsOf(callee) {
				if len(ret.Results) > 0 {
					out = append(out, modeConstants(ret.Results[0], d+1)...)
				}
			}
		}
	}
	return out
}

// ---------------- C26.R7 (round 4 seed C26-G): /P is trusted only when /Perms confirms it ----------------

// checkPermsBindsP: for revisions 5 and 6 the permission word /P is clear text; what binds it to the document is its
// encrypted copy in /Perms. validatePermissions may therefore report success only as the result of the comparison of
// the decrypted copy with /P (bytes.Equal) — or, for other revisions, behind the revision test. Same decision
// procedure as C25.R1's validators (boolFromCompare), applied to this function under C26: a relaxed-mode "digest the
// mismatch and go on" makes pdfcpu honour a /P that anybody with the user password has edited.
func checkPermsBindsP(c *Ctx) {
	p, r := c.P, c.R
	const fid = "pkg/pdfcpu.validatePermissions"
	fn := p.Func(fid)
	if fn == nil {
		r.Bad("C26.R7", fid, "anchor", "", "UNRESOLVED-ANCHOR")
		return
	}
	n := 0
	for _, ret := range returnsOf(fn) {
		if len(ret.Results) == 0 {
			continue
		}
		n++
		construct := fmt.Sprintf("return#%d ok", n)
		if why := boolFromCompare(ret.Results[0], ret, 0, map[ssa.Value]bool{}); why != "" {
			r.Bad("C26.R7", fid, construct, posOrFn(p, ret, fn), "the permission word can be accepted without the comparison with its encrypted copy in /Perms deciding it ("+why+"): a clear-text /P edited by a holder of the user password is honoured, and operations the document denies proceed")
		} else {
			r.OK("C26.R7", fid, construct, posOrFn(p, ret, fn), "false, the result of the /Perms comparison, or true behind it / behind the revision test", true)
		}
	}
	if n == 0 {
		r.Bad("C26.R7", fid, "returns", p.Pos(fn.Pos()), "UNDECIDED")
	}
}
