package main

import (
	"fmt"
	"go/token"
	"go/types"
	"sort"
	"strings"

	"golang.org/x/tools/go/ssa"
)

// C13 (one clause): the UTF-16 decoder classifies 16-bit code units exactly along the Unicode partition.

func init() {
	register(&Check{
		ID:  "C13",
		Run: runC13,
		Explanation: "Decides ONE structural clause of 'decoding a well-formed UTF-16BE text string never fails / text reads back unchanged': the decoder's classification of 16-bit code units agrees with the Unicode partition BMP [0000,D7FF] · high surrogates [D800,DBFF] · low surrogates [DC00,DFFF] · BMP [E000,FFFF]. " +
			"(R1) every comparison of a 16-bit code unit with a constant in types.decodeUTF16String is normalised to a half-line (v <= c, v < c → v <= c-1, v >= c, v > c → v >= c+1; negated branch edges are the same cut) and its cut must be one of the partition's cuts: upper ends D7FF, DBFF, DFFF, FFFF; lower ends 0000, D800, DC00, E000. An off-by-one constant or operator (v > 0xE000) misclassifies a valid character as a surrogate and makes a well-formed string fail to decode. " +
			"(R2) the encoder side hands the text to the standard library: EncodeUTF16String calls unicode/utf16.Encode and writes the byte order mark FE FF; EscapedUTF16String rejects invalid UTF-8 before encoding. " +
			"(R3) the decoder cuts the byte order mark off once, outside any loop (U+FEFF as first character is FE FF as well); (R1 also covers the encoder: a hand-written BMP test must cut between FFFF and 10000). (R4) the literal-string unescaper every stored text string passes through ends the escape state whenever an escape sequence has produced its byte (a UTF-16 code unit whose low byte is 5C is written as 5C 5C; if the flag survives, the next byte is taken as an escape letter); (R5) functions that copy a string element by element under a condition drop C0 control bytes only. (R6) in encrypted documents every text string passes decryptAESBytes: the pad-length cut is the writer's range 1..16; (R7) the low-level escaper types.Escape receives the result of EncodeUTF16String, except in listed callers that do not write text strings (content-stream text for a font's encoding, JavaScript of date fields, ciphertext) — a new caller that hands it single-byte text writes a string the reader decodes with another encoding. NOT decided: the round trip itself over all scalar values (surrogate arithmetic is the standard library's), which writer is used for which text entry, PDFDocEncoding/UTF-8 guessing for strings without a byte order mark.",
		Rules:       []string{"C13.R1 TABLE: code-unit comparisons of the UTF-16 decoder cut exactly at the Unicode partition", "C13.R2 shape: the encoder delegates to unicode/utf16 and writes the byte order mark", "C13.R3 shape: the byte order mark is stripped exactly once", "C13.R4 MPT (go/cfg): in Unescape a byte written inside an escape sequence is followed by an assignment of the escape flag before the next byte", "C13.R5 TABLE: text filters decide per element by a comparison with a constant <= 0x20 only", "C13.R6 TABLE (the cut C22.R3 also decides): AES padding removal cuts exactly after 16", "C13.R9 like-with-like (= C35.R9): the bytes of a hex string never reach Unescape", "C13.R8 cut: the surrogate-pair bounds test of the UTF-16 decoder errors exactly when the second code unit is missing", "C13.R7 WMC: types.Escape is handed the UTF-16 writer's result, or is called from a listed function that writes no text string"},
		Assumptions: []string{"unicode/utf16.Encode / Decode are correct"},
		Level:       "other",
		Technique:   "constant/operator table agreement on SSA comparisons of 16-bit values",
		Note:        "Partial: classification constants only.",
	})
}

func runC13(c *Ctx) {
	p, r := c.P, c.R
	r.MinInst["C13.R1"] = 5
	r.MinInst["C13.R2"] = 2
	r.MinInst["C13.R3"] = 1
	r.MinInst["C13.R4"] = 1
	r.MinInst["C13.R5"] = 1
	checkC13Extras(c)
	checkEscapeStateReset(c, "C13.R4")
	checkC13TextFilters(c)
	r.MinInst["C13.R6"] = 1
	checkAESPaddingCut(c, "C13.R6")
	r.MinInst["C13.R7"] = 3
	checkEscapeCallers(c)
	r.MinInst["C13.R8"] = 1
	checkSurrogateBounds(c, "C13.R8")
	r.MinInst["C13.R9"] = 3
	checkHexBytesNotUnescaped(c, "C13.R9")
	fid := "pkg/pdfcpu/types.decodeUTF16String"
	fn := p.Func(fid)
	if fn == nil {
		r.Bad("C13.R1", fid, "anchor", "", "UNRESOLVED-ANCHOR")
	} else {
		upper := map[int64]bool{0xD7FF: true, 0xDBFF: true, 0xDFFF: true, 0xFFFF: true}
		lower := map[int64]bool{0x0000: true, 0xD800: true, 0xDC00: true, 0xE000: true}
		n := 0
		eachInstr(fn, func(_ *ssa.BasicBlock, _ int, i ssa.Instruction) {
			b, ok := i.(*ssa.BinOp)
			if !ok {
				return
			}
			switch b.Op {
			case token.LSS, token.LEQ, token.GTR, token.GEQ:
			default:
				return
			}
			v, cst := b.X, b.Y
			op := b.Op
			k, isC := constInt(cst)
			if !isC {
				k, isC = constInt(b.X)
				v = b.Y
				op = mirrorOp(op)
			}
			if !isC {
				return
			}
			bt, ok := v.Type().Underlying().(*types.Basic)
			if !ok || bt.Kind() != types.Uint16 {
				return
			}
			n++
			// the cut between "true" and "false": v <= cut | v >= cut+1
			var cut int64
			switch op {
			case token.LEQ: // v <= k
				cut = k
			case token.LSS: // v < k  ==  v <= k-1
				cut = k - 1
			case token.GEQ: // v >= k  ==  !(v <= k-1)
				cut = k - 1
			case token.GTR: // v > k  ==  !(v <= k)
				cut = k
			}
			construct := fmt.Sprintf("code unit %s 0x%04X#%d", op, k, n)
			if upper[cut] || lower[cut+1] || cut == -1 {
				r.OK("C13.R1", fid, construct, p.Pos(b.Pos()), fmt.Sprintf("cuts between 0x%04X and 0x%04X: a boundary of the Unicode partition", cut, cut+1), true)
			} else {
				r.Bad("C13.R1", fid, construct, p.Pos(b.Pos()), fmt.Sprintf("this comparison cuts the 16-bit code units between 0x%04X and 0x%04X, which is not a boundary of the Unicode partition (BMP ..D7FF | D800..DBFF | DC00..DFFF | E000..): a valid character next to the boundary is taken for a surrogate (or a surrogate for a character) and a well-formed UTF-16BE string fails to decode", cut, cut+1))
			}
		})
		if n == 0 {
			r.Bad("C13.R1", fid, "comparisons", p.Pos(fn.Pos()), "UNRESOLVED-ANCHOR: no comparison of a 16-bit code unit with a constant found")
		}
	}
	// ---- R2
	if enc := p.Func("pkg/pdfcpu/types.EncodeUTF16String"); enc == nil {
		r.Bad("C13.R2", "pkg/pdfcpu/types.EncodeUTF16String", "anchor", "", "UNRESOLVED-ANCHOR")
	} else {
		std, bom := false, map[int64]bool{}
		eachInstr(enc, func(_ *ssa.BasicBlock, _ int, i ssa.Instruction) {
			if call, ok := i.(*ssa.Call); ok {
				if _, ref := callRef(call); ref == "unicode/utf16.Encode" || ref == "unicode/utf16.AppendRune" || ref == "unicode/utf16.EncodeRune" {
					std = true
				}
			}
			if st, ok := i.(*ssa.Store); ok {
				if k, ok := constInt(st.Val); ok {
					bom[k] = true
				}
			}
		})
		var missing []string
		if !std {
			missing = append(missing, "no call of unicode/utf16.Encode")
		}
		if !bom[0xFE] || !bom[0xFF] {
			missing = append(missing, "the byte order mark FE FF is not written")
		}
		sort.Strings(missing)
		if len(missing) > 0 {
			r.Bad("C13.R2", FuncID(enc), "encoder", p.Pos(enc.Pos()), fmt.Sprintf("%v: the reader recognises UTF-16BE text by its byte order mark and decodes surrogate pairs as the standard library writes them", missing))
		} else {
			r.OK("C13.R2", FuncID(enc), "encoder", p.Pos(enc.Pos()), "unicode/utf16.Encode output behind the byte order mark FE FF", true)
		}
	}
	if esc := p.Func("pkg/pdfcpu/types.EscapedUTF16String"); esc == nil {
		r.Bad("C13.R2", "pkg/pdfcpu/types.EscapedUTF16String", "anchor", "", "UNRESOLVED-ANCHOR")
	} else {
		valid, encodes := false, false
		eachInstr(esc, func(_ *ssa.BasicBlock, _ int, i ssa.Instruction) {
			if call, ok := i.(*ssa.Call); ok {
				_, ref := callRef(call)
				if ref == "unicode/utf8.ValidString" || ref == "unicode/utf8.Valid" {
					valid = true
				}
				if ref == "pkg/pdfcpu/types.EncodeUTF16String" {
					encodes = true
				}
			}
		})
		if valid && encodes {
			r.OK("C13.R2", FuncID(esc), "validates then encodes", p.Pos(esc.Pos()), "invalid UTF-8 is rejected, valid text goes through EncodeUTF16String", true)
		} else {
			r.Bad("C13.R2", FuncID(esc), "validates then encodes", p.Pos(esc.Pos()), "EscapedUTF16String no longer validates its input as UTF-8 or no longer encodes through EncodeUTF16String: []rune conversion silently replaces invalid bytes by U+FFFD")
		}
	}
}

// ---------------- round 3 seeds: BOM stripped once; encoder plane boundary ----------------

func checkC13Extras(c *Ctx) {
	p, r := c.P, c.R
	// R3: the byte order mark is removed exactly once, not in a loop (a leading U+FEFF character is FE FF too)
	if fn := p.Func("pkg/pdfcpu/types.decodeUTF16String"); fn != nil {
		inLoop := map[*ssa.BasicBlock]bool{}
		for _, l := range naturalLoops(fn) {
			for b := range l.blocks {
				inLoop[b] = true
			}
		}
		n := 0
		eachInstr(fn, func(b *ssa.BasicBlock, _ int, i ssa.Instruction) {
			sl, ok := i.(*ssa.Slice)
			if !ok || sl.Low == nil || sl.High != nil {
				return
			}
			k, ok := constInt(sl.Low)
			if !ok || k != 2 {
				return
			}
			n++
			if inLoop[b] {
				r.Bad("C13.R3", FuncID(fn), fmt.Sprintf("BOM strip#%d", n), p.Pos(sl.Pos()), "the two byte order mark bytes are cut off inside a loop: text that starts with the character U+FEFF is encoded FE FF FE FF …, and every repetition is dropped, so the text does not read back unchanged")
			} else {
				r.OK("C13.R3", FuncID(fn), fmt.Sprintf("BOM strip#%d", n), p.Pos(sl.Pos()), "the byte order mark is cut off once, outside any loop", true)
			}
		})
		if n == 0 {
			r.Bad("C13.R3", FuncID(fn), "BOM strip", p.Pos(fn.Pos()), "UNRESOLVED-ANCHOR: no b[2:] found in the decoder")
		}
	}
	// R1 (encoder side): comparisons of a rune with a constant cut at a plane / surrogate boundary
	if fn := p.Func("pkg/pdfcpu/types.EncodeUTF16String"); fn != nil {
		upper := map[int64]bool{0xD7FF: true, 0xDFFF: true, 0xFFFF: true, 0x10FFFF: true, 0x7F: true, 0xFF: true}
		n := 0
		eachInstr(fn, func(_ *ssa.BasicBlock, _ int, i ssa.Instruction) {
			b, ok := i.(*ssa.BinOp)
			if !ok {
				return
			}
			switch b.Op {
			case token.LSS, token.LEQ, token.GTR, token.GEQ:
			default:
				return
			}
			v := b.X
			op := b.Op
			k, isC := constInt(b.Y)
			if !isC {
				k, isC = constInt(b.X)
				v = b.Y
				op = mirrorOp(op)
			}
			if !isC {
				return
			}
			bt, ok := v.Type().Underlying().(*types.Basic)
			if !ok || (bt.Kind() != types.Int32 && bt.Kind() != types.Uint16 && bt.Kind() != types.Uint32) {
				return
			}
			if k < 0x80 {
				return // loop counters and the like
			}
			n++
			cut := k
			if op == token.LSS || op == token.GEQ {
				cut = k - 1
			}
			construct := fmt.Sprintf("rune %s 0x%X#%d", op, k, n)
			if upper[cut] {
				r.OK("C13.R1", FuncID(fn), construct, p.Pos(b.Pos()), fmt.Sprintf("cuts between 0x%X and 0x%X: a plane or surrogate boundary", cut, cut+1), true)
			} else {
				r.Bad("C13.R1", FuncID(fn), construct, p.Pos(b.Pos()), fmt.Sprintf("the encoder cuts the code points between 0x%X and 0x%X, which is neither the end of the basic multilingual plane (FFFF|10000) nor a surrogate boundary: the code point next to the cut is written with the wrong number of code units and reads back as another character", cut, cut+1))
			}
		})
	}
}

// ---------------- C13.R4 / R5 (round 3 seeds C13-C, C13-D) ----------------

// R5: text filters. A func(string) string that copies its argument element by element into a builder under a
// condition is a filter on text; the only filter the tree has on the text-string path (outlineItemTitle) drops
// C0 control bytes. The rule: every condition that decides, inside the copy loop, whether an element is written
// is a comparison of that element with a constant <= 0x20 (a cut inside the C0 controls / space); a class
// predicate (unicode.IsGraphic, IsPrint ...) or a higher cut drops characters of valid text (ZWJ, soft hyphen,
// private use), so the title does not read back unchanged.
// c13NotTextFilters: filtered copies that do not handle PDF text strings.
var c13NotTextFilters = map[string]string{
	"pkg/pdfcpu/types.EncodeName":  "name encoder (C12) with a lazily started builder: iterations that write nothing precede the first replacement, and WriteString(s[:i]) then copies those elements wholesale",
	"pkg/pdfcpu/sanitize.pathPart": "builds a file-system safe file name from an attachment or output name; the result is a path component, never stored as or read back from a PDF text string",
}

func checkC13TextFilters(c *Ctx) {
	p, r := c.P, c.R
	n := 0
	for _, fn := range p.Funcs {
		if !isSubject(fn) || fn.Signature.Recv() != nil || len(fn.Params) != 1 || fn.Signature.Results().Len() != 1 {
			continue
		}
		isStr := func(t types.Type) bool {
			b, ok := t.Underlying().(*types.Basic)
			return ok && b.Kind() == types.String
		}
		if !isStr(fn.Params[0].Type()) || !isStr(fn.Signature.Results().At(0).Type()) {
			continue
		}
		param := fn.Params[0]
		// element of the parameter: s[i], or the rune/byte of a range over s
		isElem := func(v ssa.Value) bool {
			for {
				switch x := v.(type) {
				case *ssa.Convert:
					v = x.X
					continue
				case *ssa.Lookup:
					return x.X == ssa.Value(param)
				case *ssa.Index:
					return x.X == ssa.Value(param)
				case *ssa.Extract:
					if nx, ok := x.Tuple.(*ssa.Next); ok {
						if rg, ok := nx.Iter.(*ssa.Range); ok {
							return rg.X == ssa.Value(param) && x.Index == 2
						}
					}
					return false
				}
				return false
			}
		}
		loops := naturalLoops(fn)
		k := 0
		eachInstr(fn, func(b *ssa.BasicBlock, _ int, i ssa.Instruction) {
			call, ok := i.(*ssa.Call)
			if !ok {
				return
			}
			callee := staticCallee(call)
			if callee == nil || (callee.Name() != "WriteByte" && callee.Name() != "WriteRune") || len(call.Call.Args) != 2 || !isElem(call.Call.Args[1]) {
				return
			}
			var loop *natLoop
			for _, l := range loops {
				if l.blocks[b] {
					loop = l
				}
			}
			if loop == nil {
				return
			}
			// conditions inside the loop that decide whether b runs
			var conds []*ssa.If
			for blk := range loop.blocks {
				if blk == loop.header || len(blk.Instrs) == 0 {
					continue
				}
				ifi, ok := blk.Instrs[len(blk.Instrs)-1].(*ssa.If)
				if !ok {
					continue
				}
				if edgeDominates(Edge{blk, 0}, b) != edgeDominates(Edge{blk, 1}, b) {
					conds = append(conds, ifi)
				}
			}
			if len(conds) == 0 {
				return // unconditional copy: not a filter
			}
			// a filter drops: some path of one iteration writes nothing (a transcoder that substitutes writes on every path)
			writesIn := func(blk *ssa.BasicBlock) bool {
				for _, in := range blk.Instrs {
					if cl, ok := in.(*ssa.Call); ok {
						if ce := staticCallee(cl); ce != nil && strings.HasPrefix(ce.Name(), "Write") {
							return true
						}
					}
				}
				return false
			}
			drops := false
			seen := map[*ssa.BasicBlock]bool{loop.header: true}
			st := []*ssa.BasicBlock{loop.header}
			for len(st) > 0 && !drops {
				x := st[len(st)-1]
				st = st[:len(st)-1]
				for _, sx := range x.Succs {
					if sx == loop.header {
						drops = true
						break
					}
					if !loop.blocks[sx] || seen[sx] || writesIn(sx) {
						continue
					}
					seen[sx] = true
					st = append(st, sx)
				}
			}
			if !drops {
				return
			}
			if why := c13NotTextFilters[FuncID(fn)]; why != "" {
				k++
				n++
				r.OK("C13.R5", FuncID(fn), fmt.Sprintf("filtered copy#%d", k), p.Pos(call.Pos()), "not on the text-string path: "+why, false)
				return
			}
			k++
			n++
			construct := fmt.Sprintf("filtered copy#%d", k)
			var bad []string
			for _, ifi := range conds {
				bo, ok := ifi.Cond.(*ssa.BinOp)
				if !ok {
					bad = append(bad, "decided by "+exprName(ifi.Cond)+", not by a comparison of the element with a constant")
					continue
				}
				var cst ssa.Value
				switch {
				case isElem(bo.X):
					cst = bo.Y
				case isElem(bo.Y):
					cst = bo.X
				}
				v, isC := int64(0), false
				if cst != nil {
					v, isC = c31ConstInt(cst)
				}
				if !isC {
					bad = append(bad, "decided by a comparison that is not element against constant")
					continue
				}
				if v > 0x20 {
					bad = append(bad, fmt.Sprintf("cut at 0x%X, above the C0 controls", v))
				}
			}
			if len(bad) > 0 {
				r.Bad("C13.R5", FuncID(fn), construct, p.Pos(call.Pos()), "a text filter drops elements of its argument other than C0 control bytes ("+strings.Join(bad, "; ")+"): characters of valid Unicode text (format characters, private use, unassigned) disappear from the text that is read back")
			} else {
				r.OK("C13.R5", FuncID(fn), construct, p.Pos(call.Pos()), fmt.Sprintf("%d deciding comparisons, each of the element against a constant <= 0x20", len(conds)), true)
			}
		})
	}
	if n == 0 {
		r.Bad("C13.R5", "-", "anchor", "", "UNRESOLVED-ANCHOR: no filtered element copy in a func(string) string found (outlineItemTitle)")
	}
}

// ---------------- C13.R7 (round 4 seed C13-F): who may call the low-level escaper ----------------

// c13EscapeCallers: functions that hand types.Escape something other than a UTF-16BE text string, with the reason.
var c13EscapeCallers = map[string]string{
	"pkg/pdfcpu/model.PrepBytes":                     "escapes the operand of a Tj text-showing operator in a content stream: bytes in the font's encoding (CP1252 for core fonts, glyph ids for user fonts), not a text string",
	"pkg/pdfcpu/primitives.(*DateField).prepareDict": "escapes the JavaScript source of the AFDate actions, ASCII built from the date format's constant name",
	"pkg/pdfcpu.encryptStringLiteral":                "escapes ciphertext (the encrypted bytes of a string of any kind)",
	"pkg/pdfcpu.decryptStringLiteral":                "re-escapes the decrypted bytes exactly as they were before encryption (the encoding is whatever the writer of the string chose)",
}

func checkEscapeCallers(c *Ctx) {
	p, r := c.P, c.R
	esc := p.Func("pkg/pdfcpu/types.Escape")
	if esc == nil {
		r.Bad("C13.R7", "pkg/pdfcpu/types.Escape", "anchor", "", "UNRESOLVED-ANCHOR")
		return
	}
	n := 0
	for _, fn := range p.Funcs {
		if !isSubject(fn) {
			continue
		}
		k := 0
		eachInstr(fn, func(_ *ssa.BasicBlock, _ int, i ssa.Instruction) {
			call, ok := i.(*ssa.Call)
			if !ok {
				return
			}
			if f := staticCallee(call); f == nil || unwrapSynthetic(f) != esc || len(call.Call.Args) != 1 {
				return
			}
			k++
			n++
			construct := fmt.Sprintf("call of types.Escape#%d", k)
			pos := p.Pos(call.Pos())
			fromUTF16 := false
			for _, l := range valueLeaves(call.Call.Args[0]) {
				if cl, ok := l.(*ssa.Call); ok {
					if _, ref := callRef(cl); strings.HasSuffix(ref, "types.EncodeUTF16String") {
						fromUTF16 = true
					}
				}
			}
			switch {
			case fromUTF16:
				r.OK("C13.R7", FuncID(fn), construct, pos, "the argument is the result of EncodeUTF16String", true)
			case c13EscapeCallers[FuncID(fn)] != "":
				r.OK("C13.R7", FuncID(fn), construct, pos, "listed: "+c13EscapeCallers[FuncID(fn)], false)
			default:
				r.Bad("C13.R7", FuncID(fn), construct, pos, "a string object is escaped from bytes that are not the UTF-16BE writer's output, in a function that is not listed as writing something other than a text string: text stored in a single-byte encoding is read back through the UTF-16 / UTF-8 / PDFDocEncoding guess and comes out as other characters (U+00A0, C1 controls, byte sequences that happen to be UTF-8)")
			}
		})
	}
	if n == 0 {
		r.Bad("C13.R7", FuncID(esc), "anchor", "", "UNRESOLVED-ANCHOR: types.Escape has no callers")
	}
}

// ---------------- C13.R8 = C35.R5 (round 4 seed C35-A): the surrogate bounds test of the UTF-16 decoder ----------------

// checkSurrogateBounds: a high surrogate at byte index i needs the code unit at i+2, i+3. The decoder's length is even
// (checked by IsUTF16BE) and i is even, so "the low surrogate is missing" is i+2 >= len(b), equivalently i+3 >= len(b).
// Every comparison of (loop index + constant) with len of the decoded slice in decodeUTF16String is normalised to
// index - len >= c; c must be -2 or -3. A larger margin (i+4 >= len) rejects every text whose LAST character is
// outside the BMP — "decoding a well-formed UTF-16BE text string never fails".
func checkSurrogateBounds(c *Ctx, rule string) {
	p, r := c.P, c.R
	const fid = "pkg/pdfcpu/types.decodeUTF16String"
	fn := p.Func(fid)
	if fn == nil {
		r.Bad(rule, fid, "anchor", "", "UNRESOLVED-ANCHOR")
		return
	}
	n := 0
	eachInstr(fn, func(b *ssa.BasicBlock, _ int, i ssa.Instruction) {
		bo, ok := i.(*ssa.BinOp)
		if !ok {
			return
		}
		op := bo.Op
		L, R := bo.X, bo.Y
		switch op {
		case token.LSS, token.LEQ:
			L, R = R, L
			op = mirrorOp(op)
		case token.GTR, token.GEQ:
		default:
			return
		}
		// L >= R (or >): index side must be phi + const, other side len(...)
		if !isLenCall(R) {
			return
		}
		la := linOf(c, L, 0)
		if len(la) != 1 || len(la[0].coef) != 1 || la[0].k == 0 {
			return // the loop condition itself (i < len) has no constant
		}
		for v, cf := range la[0].coef {
			if _, isPhi := v.(*ssa.Phi); !isPhi || cf != 1 {
				return
			}
		}
		// index + k >= len  <=>  index - len >= -k ; strict: index + k > len <=> index - len >= -k + 1
		cst := -la[0].k
		if op == token.GTR {
			cst++
		}
		n++
		construct := fmt.Sprintf("surrogate bounds test#%d", n)
		if cst == -2 || cst == -3 {
			r.OK(rule, fid, construct, p.Pos(bo.Pos()), fmt.Sprintf("errors iff index - len >= %d: exactly when the second code unit is missing", cst), true)
		} else {
			r.Bad(rule, fid, construct, p.Pos(bo.Pos()), fmt.Sprintf("the decoder reports a corrupt length iff index - len >= %d; the pair at index i needs bytes up to i+3, i.e. the cut is -2 (or -3): with this margin a well-formed text whose last character lies outside the BMP (an emoji at the end) fails to decode — or a truncated pair is read past the end", cst))
		}
	})
	if n == 0 {
		r.Bad(rule, fid, "surrogate bounds test", p.Pos(fn.Pos()), "UNDECIDED: no comparison of index + constant with the length found before the second code unit is read")
	}
}
