package main

import (
	"fmt"
	"go/token"
	"go/types"
	"sort"

	"golang.org/x/tools/go/ssa"
)

// C13 (one clause): the UTF-16 decoder classifies 16-bit code units exactly along the Unicode partition.

func init() {
	register(&Check{
		ID:  "C13",
		Run: runC13,
		Explanation: "Decides ONE structural clause of 'decoding a well-formed UTF-16BE text string never fails / text reads back unchanged': the decoder's classification of 16-bit code units agrees with the Unicode partition BMP [0000,D7FF] · high surrogates [D800,DBFF] · low surrogates [DC00,DFFF] · BMP [E000,FFFF]. " +
			"(R1) every comparison of a 16-bit code unit with a constant in types.decodeUTF16String is normalised to a half-line (v <= c, v < c → v <= c-1, v >= c, v > c → v >= c+1; negated branch edges are the same cut) and its cut must be one of the partition's cuts: upper ends D7FF, DBFF, DFFF, FFFF; lower ends 0000, D800, DC00, E000. An off-by-one constant or operator (v > 0xE000) misclassifies a valid character as a surrogate and makes a well-formed string fail to decode. " +
			"(R2) the encoder side hands the text to the standard library: EncodeUTF16String calls unicode/utf16.Encode and writes the byte order mark FE FF; EscapedUTF16String rejects invalid UTF-8 before encoding. " +
			"(R3) the decoder cuts the byte order mark off once, outside any loop (U+FEFF as first character is FE FF as well); (R1 also covers the encoder: a hand-written BMP test must cut between FFFF and 10000). NOT decided: the round trip itself over all scalar values (surrogate arithmetic is the standard library's), which writer is used for which text entry, PDFDocEncoding/UTF-8 guessing for strings without a byte order mark.",
		Rules:       []string{"C13.R1 TABLE: code-unit comparisons of the UTF-16 decoder cut exactly at the Unicode partition", "C13.R2 shape: the encoder delegates to unicode/utf16 and writes the byte order mark", "C13.R3 shape: the byte order mark is stripped exactly once"},
		Assumptions: []string{"unicode/utf16.Encode / Decode are correct"},
		Level:       "other",
		Technique:   "constant/operator table agreement on SSA comparisons of 16-bit values",
		Note:        "Partial: classification constants only.",
	})
}

func runC13(c *Ctx) {
	p, r := c.P, c.R
	r.MinInst["C13.R1"] = 5
	r.MinInst["C13.R2"] = 2
	r.MinInst["C13.R3"] = 1
	checkC13Extras(c)
	fid := "pkg/pdfcpu/types.decodeUTF16String"
	fn := p.Func(fid)
	if fn == nil {
		r.Bad("C13.R1", fid, "anchor", "", "UNRESOLVED-ANCHOR")
	} else {
		upper := map[int64]bool{0xD7FF: true, 0xDBFF: true, 0xDFFF: true, 0xFFFF: true}
		lower := map[int64]bool{0x0000: true, 0xD800: true, 0xDC00: true, 0xE000: true}
		n := 0
		eachInstr(fn, func(_ *ssa.BasicBlock, _ int, i ssa.Instruction) {
			b, ok := i.(*ssa.BinOp)
			if !ok {
				return
			}
			switch b.Op {
			case token.LSS, token.LEQ, token.GTR, token.GEQ:
			default:
				return
			}
			v, cst := b.X, b.Y
			op := b.Op
			k, isC := constInt(cst)
			if !isC {
				k, isC = constInt(b.X)
				v = b.Y
				op = mirrorOp(op)
			}
			if !isC {
				return
			}
			bt, ok := v.Type().Underlying().(*types.Basic)
			if !ok || bt.Kind() != types.Uint16 {
				return
			}
			n++
			// the cut between "true" and "false": v <= cut | v >= cut+1
			var cut int64
			switch op {
			case token.LEQ: // v <= k
				cut = k
			case token.LSS: // v < k  ==  v <= k-1
				cut = k - 1
			case token.GEQ: // v >= k  ==  !(v <= k-1)
				cut = k - 1
			case token.GTR: // v > k  ==  !(v <= k)
				cut = k
			}
			construct := fmt.Sprintf("code unit %s 0x%04X#%d", op, k, n)
			if upper[cut] || lower[cut+1] || cut == -1 {
				r.OK("C13.R1", fid, construct, p.Pos(b.Pos()), fmt.Sprintf("cuts between 0x%04X and 0x%04X: a boundary of the Unicode partition", cut, cut+1), true)
			} else {
				r.Bad("C13.R1", fid, construct, p.Pos(b.Pos()), fmt.Sprintf("this comparison cuts the 16-bit code units between 0x%04X and 0x%04X, which is not a boundary of the Unicode partition (BMP ..D7FF | D800..DBFF | DC00..DFFF | E000..): a valid character next to the boundary is taken for a surrogate (or a surrogate for a character) and a well-formed UTF-16BE string fails to decode", cut, cut+1))
			}
		})
		if n == 0 {
			r.Bad("C13.R1", fid, "comparisons", p.Pos(fn.Pos()), "UNRESOLVED-ANCHOR: no comparison of a 16-bit code unit with a constant found")
		}
	}
	// ---- R2
	if enc := p.Func("pkg/pdfcpu/types.EncodeUTF16String"); enc == nil {
		r.Bad("C13.R2", "pkg/pdfcpu/types.EncodeUTF16String", "anchor", "", "UNRESOLVED-ANCHOR")
	} else {
		std, bom := false, map[int64]bool{}
		eachInstr(enc, func(_ *ssa.BasicBlock, _ int, i ssa.Instruction) {
			if call, ok := i.(*ssa.Call); ok {
				if _, ref := callRef(call); ref == "unicode/utf16.Encode" || ref == "unicode/utf16.AppendRune" || ref == "unicode/utf16.EncodeRune" {
					std = true
				}
			}
			if st, ok := i.(*ssa.Store); ok {
				if k, ok := constInt(st.Val); ok {
					bom[k] = true
				}
			}
		})
		var missing []string
		if !std {
			missing = append(missing, "no call of unicode/utf16.Encode")
		}
		if !bom[0xFE] || !bom[0xFF] {
			missing = append(missing, "the byte order mark FE FF is not written")
		}
		sort.Strings(missing)
		if len(missing) > 0 {
			r.Bad("C13.R2", FuncID(enc), "encoder", p.Pos(enc.Pos()), fmt.Sprintf("%v: the reader recognises UTF-16BE text by its byte order mark and decodes surrogate pairs as the standard library writes them", missing))
		} else {
			r.OK("C13.R2", FuncID(enc), "encoder", p.Pos(enc.Pos()), "unicode/utf16.Encode output behind the byte order mark FE FF", true)
		}
	}
	if esc := p.Func("pkg/pdfcpu/types.EscapedUTF16String"); esc == nil {
		r.Bad("C13.R2", "pkg/pdfcpu/types.EscapedUTF16String", "anchor", "", "UNRESOLVED-ANCHOR")
	} else {
		valid, encodes := false, false
		eachInstr(esc, func(_ *ssa.BasicBlock, _ int, i ssa.Instruction) {
			if call, ok := i.(*ssa.Call); ok {
				_, ref := callRef(call)
				if ref == "unicode/utf8.ValidString" || ref == "unicode/utf8.Valid" {
					valid = true
				}
				if ref == "pkg/pdfcpu/types.EncodeUTF16String" {
					encodes = true
				}
			}
		})
		if valid && encodes {
			r.OK("C13.R2", FuncID(esc), "validates then encodes", p.Pos(esc.Pos()), "invalid UTF-8 is rejected, valid text goes through EncodeUTF16String", true)
		} else {
			r.Bad("C13.R2", FuncID(esc), "validates then encodes", p.Pos(esc.Pos()), "EscapedUTF16String no longer validates its input as UTF-8 or no longer encodes through EncodeUTF16String: []rune conversion silently replaces invalid bytes by U+FFFD")
		}
	}
}

// ---------------- round 3 seeds: BOM stripped once; encoder plane boundary ----------------

func checkC13Extras(c *Ctx) {
	p, r := c.P, c.R
	// R3: the byte order mark is removed exactly once, not in a loop (a leading U+FEFF character is FE FF too)
	if fn := p.Func("pkg/pdfcpu/types.decodeUTF16String"); fn != nil {
		inLoop := map[*ssa.BasicBlock]bool{}
		for _, l := range naturalLoops(fn) {
			for b := range l.blocks {
				inLoop[b] = true
			}
		}
		n := 0
		eachInstr(fn, func(b *ssa.BasicBlock, _ int, i ssa.Instruction) {
			sl, ok := i.(*ssa.Slice)
			if !ok || sl.Low == nil || sl.High != nil {
				return
			}
			k, ok := constInt(sl.Low)
			if !ok || k != 2 {
				return
			}
			n++
			if inLoop[b] {
				r.Bad("C13.R3", FuncID(fn), fmt.Sprintf("BOM strip#%d", n), p.Pos(sl.Pos()), "the two byte order mark bytes are cut off inside a loop: text that starts with the character U+FEFF is encoded FE FF FE FF …, and every repetition is dropped, so the text does not read back unchanged")
			} else {
				r.OK("C13.R3", FuncID(fn), fmt.Sprintf("BOM strip#%d", n), p.Pos(sl.Pos()), "the byte order mark is cut off once, outside any loop", true)
			}
		})
		if n == 0 {
			r.Bad("C13.R3", FuncID(fn), "BOM strip", p.Pos(fn.Pos()), "UNRESOLVED-ANCHOR: no b[2:] found in the decoder")
		}
	}
	// R1 (encoder side): comparisons of a rune with a constant cut at a plane / surrogate boundary
	if fn := p.Func("pkg/pdfcpu/types.EncodeUTF16String"); fn != nil {
		upper := map[int64]bool{0xD7FF: true, 0xDFFF: true, 0xFFFF: true, 0x10FFFF: true, 0x7F: true, 0xFF: true}
		n := 0
		eachInstr(fn, func(_ *ssa.BasicBlock, _ int, i ssa.Instruction) {
			b, ok := i.(*ssa.BinOp)
			if !ok {
				return
			}
			switch b.Op {
			case token.LSS, token.LEQ, token.GTR, token.GEQ:
			default:
				return
			}
			v := b.X
			op := b.Op
			k, isC := constInt(b.Y)
			if !isC {
				k, isC = constInt(b.X)
				v = b.Y
				op = mirrorOp(op)
			}
			if !isC {
				return
			}
			bt, ok := v.Type().Underlying().(*types.Basic)
			if !ok || (bt.Kind() != types.Int32 && bt.Kind() != types.Uint16 && bt.Kind() != types.Uint32) {
				return
			}
			if k < 0x80 {
				return // loop counters and the like
			}
			n++
			cut := k
			if op == token.LSS || op == token.GEQ {
				cut = k - 1
			}
			construct := fmt.Sprintf("rune %s 0x%X#%d", op, k, n)
			if upper[cut] {
				r.OK("C13.R1", FuncID(fn), construct, p.Pos(b.Pos()), fmt.Sprintf("cuts between 0x%X and 0x%X: a plane or surrogate boundary", cut, cut+1), true)
			} else {
				r.Bad("C13.R1", FuncID(fn), construct, p.Pos(b.Pos()), fmt.Sprintf("the encoder cuts the code points between 0x%X and 0x%X, which is neither the end of the basic multilingual plane (FFFF|10000) nor a surrogate boundary: the code point next to the cut is written with the wrong number of code units and reads back as another character", cut, cut+1))
			}
		})
	}
}
