package main

import (
	"go/types"
	"sort"

	"golang.org/x/tools/go/ssa"
)

// CG is the project call graph A-CG over subject functions:
//   - static callees (incl. generic instantiations),
//   - closures attributed to their lexical parent (parent -> closure),
//   - function values referenced (not called) by a function (referrer -> function),
//   - calls through struct fields of func type resolved to every function ever stored to that field,
//   - interface invokes resolved by CHA over module types (and stdlib callees are leaves).
type CG struct {
	P        *Program
	Out      map[*ssa.Function][]*ssa.Function
	In       map[*ssa.Function][]*ssa.Function
	Bindings map[*types.Var][]*ssa.Function // field -> functions stored
	// ExtCalls: non-subject static callees per function (std / third-party), by object ref
	Ext map[*ssa.Function]map[string]bool
}

func BuildCG(p *Program) *CG {
	g := &CG{P: p, Out: map[*ssa.Function][]*ssa.Function{}, In: map[*ssa.Function][]*ssa.Function{}, Bindings: map[*types.Var][]*ssa.Function{}, Ext: map[*ssa.Function]map[string]bool{}}
	// pass 1: field bindings
	for _, fn := range p.Funcs {
		eachInstr(fn, func(_ *ssa.BasicBlock, _ int, i ssa.Instruction) {
			st, ok := i.(*ssa.Store)
			if !ok {
				return
			}
			fa, ok := st.Addr.(*ssa.FieldAddr)
			if !ok {
				return
			}
			f := structField(fa.X.Type(), fa.Field)
			if f == nil {
				return
			}
			if tgt := funcValue(st.Val); tgt != nil {
				g.Bindings[f] = append(g.Bindings[f], tgt)
			}
		})
	}
	// method sets for CHA
	var namedTypes []types.Type
	for _, pk := range p.Pkgs {
		sc := pk.Types.Scope()
		for _, n := range sc.Names() {
			if tn, ok := sc.Lookup(n).(*types.TypeName); ok && !tn.IsAlias() {
				if _, isIface := tn.Type().Underlying().(*types.Interface); isIface {
					continue
				}
				if nt, ok := tn.Type().(*types.Named); ok && nt.TypeParams().Len() > 0 {
					continue
				}
				namedTypes = append(namedTypes, tn.Type(), types.NewPointer(tn.Type()))
			}
		}
	}
	chaCache := map[*types.Func][]*ssa.Function{}
	cha := func(m *types.Func, iface types.Type) []*ssa.Function {
		if r, ok := chaCache[m]; ok {
			return r
		}
		var out []*ssa.Function
		it, _ := iface.Underlying().(*types.Interface)
		if it != nil {
			for _, t := range namedTypes {
				if !types.Implements(t, it) {
					continue
				}
				sel := p.SSA.MethodSets.MethodSet(t).Lookup(m.Pkg(), m.Name())
				if sel == nil {
					continue
				}
				if f := p.SSA.MethodValue(sel); f != nil {
					out = append(out, f)
				}
			}
		}
		chaCache[m] = out
		return out
	}
	addEdge := func(from, to *ssa.Function) {
		if to == nil {
			return
		}
		// wrappers ($bound, $thunk): resolve to the wrapped method when synthetic
		if !isSubject(to) {
			if o := to.Object(); o != nil {
				if g.Ext[from] == nil {
					g.Ext[from] = map[string]bool{}
				}
				g.Ext[from][objRef(o)] = true
			}
			return
		}
		g.Out[from] = append(g.Out[from], to)
	}
	for _, fn := range p.Funcs {
		fn := fn
		eachInstr(fn, func(_ *ssa.BasicBlock, _ int, i ssa.Instruction) {
			if mc, ok := i.(*ssa.MakeClosure); ok {
				addEdge(fn, mc.Fn.(*ssa.Function))
			}
			// referenced function values
			for _, op := range i.Operands(nil) {
				if op == nil || *op == nil {
					continue
				}
				if f, ok := (*op).(*ssa.Function); ok {
					if c, isCall := i.(ssa.CallInstruction); isCall && c.Common().Value == *op {
						continue
					}
					addEdge(fn, unwrapSynthetic(f))
				}
			}
			c, ok := i.(ssa.CallInstruction)
			if !ok {
				return
			}
			cc := c.Common()
			if cc.IsInvoke() {
				for _, t := range cha(cc.Method, cc.Value.Type()) {
					addEdge(fn, t)
				}
				return
			}
			if f := staticCallee(c); f != nil {
				addEdge(fn, unwrapSynthetic(f))
				return
			}
			if fld := fieldOfValue(cc.Value); fld != nil {
				for _, t := range g.Bindings[fld] {
					addEdge(fn, t)
				}
			}
		})
	}
	for f, outs := range g.Out {
		g.Out[f] = dedupFuncs(outs)
	}
	for f, outs := range g.Out {
		for _, t := range outs {
			g.In[t] = append(g.In[t], f)
		}
	}
	for f, ins := range g.In {
		g.In[f] = dedupFuncs(ins)
	}
	return g
}

// unwrapSynthetic maps bound-method closures / thunks to the underlying method.
func unwrapSynthetic(f *ssa.Function) *ssa.Function {
	if f.Synthetic != "" && f.Object() != nil && f.Origin() == nil {
		if o, ok := f.Object().(*types.Func); ok {
			if real := f.Prog.FuncValue(o); real != nil {
				return real
			}
		}
	}
	return f
}

func funcValue(v ssa.Value) *ssa.Function {
	switch x := v.(type) {
	case *ssa.Function:
		return unwrapSynthetic(x)
	case *ssa.MakeClosure:
		if f, ok := x.Fn.(*ssa.Function); ok {
			return unwrapSynthetic(f)
		}
	case *ssa.ChangeType:
		return funcValue(x.X)
	}
	return nil
}

func dedupFuncs(fs []*ssa.Function) []*ssa.Function {
	seen := map[*ssa.Function]bool{}
	var out []*ssa.Function
	for _, f := range fs {
		if !seen[f] {
			seen[f] = true
			out = append(out, f)
		}
	}
	sort.Slice(out, func(i, j int) bool { return FuncID(out[i]) < FuncID(out[j]) })
	return out
}

// Reachable returns all subject functions reachable from roots (inclusive).
func (g *CG) Reachable(roots []*ssa.Function) map[*ssa.Function]bool {
	seen := map[*ssa.Function]bool{}
	st := append([]*ssa.Function{}, roots...)
	for len(st) > 0 {
		f := st[len(st)-1]
		st = st[:len(st)-1]
		if f == nil || seen[f] {
			continue
		}
		seen[f] = true
		st = append(st, g.Out[f]...)
	}
	return seen
}

// Reaches reports whether some function satisfying pred is reachable from f (inclusive).
func (g *CG) Reaches(f *ssa.Function, pred func(*ssa.Function) bool) bool {
	for x := range g.Reachable([]*ssa.Function{f}) {
		if pred(x) {
			return true
		}
	}
	return false
}

// ReachesExt: some function reachable from f calls external object ref.
func (g *CG) ReachesExt(f *ssa.Function, ref string) bool {
	for x := range g.Reachable([]*ssa.Function{f}) {
		if g.Ext[x][ref] {
			return true
		}
	}
	return false
}

// SCCs returns the strongly connected components with more than one node or a self loop.
func (g *CG) SCCs(nodes []*ssa.Function) [][]*ssa.Function {
	index := 0
	idx := map[*ssa.Function]int{}
	low := map[*ssa.Function]int{}
	on := map[*ssa.Function]bool{}
	var stack []*ssa.Function
	var out [][]*ssa.Function
	inNodes := map[*ssa.Function]bool{}
	for _, n := range nodes {
		inNodes[n] = true
	}
	// iterative Tarjan
	type frame struct {
		v *ssa.Function
		i int
	}
	for _, root := range nodes {
		if _, ok := idx[root]; ok {
			continue
		}
		fr := []frame{{root, 0}}
		idx[root], low[root] = index, index
		index++
		stack = append(stack, root)
		on[root] = true
		for len(fr) > 0 {
			top := &fr[len(fr)-1]
			v := top.v
			outs := g.Out[v]
			if top.i < len(outs) {
				w := outs[top.i]
				top.i++
				if !inNodes[w] {
					continue
				}
				if _, ok := idx[w]; !ok {
					idx[w], low[w] = index, index
					index++
					stack = append(stack, w)
					on[w] = true
					fr = append(fr, frame{w, 0})
				} else if on[w] && idx[w] < low[v] {
					low[v] = idx[w]
				}
				continue
			}
			fr = fr[:len(fr)-1]
			if len(fr) > 0 {
				p := fr[len(fr)-1].v
				if low[v] < low[p] {
					low[p] = low[v]
				}
			}
			if low[v] == idx[v] {
				var comp []*ssa.Function
				for {
					w := stack[len(stack)-1]
					stack = stack[:len(stack)-1]
					on[w] = false
					comp = append(comp, w)
					if w == v {
						break
					}
				}
				if len(comp) > 1 {
					out = append(out, dedupFuncs(comp))
				} else {
					for _, w := range g.Out[v] {
						if w == v {
							out = append(out, comp)
							break
						}
					}
				}
			}
		}
	}
	sort.Slice(out, func(i, j int) bool { return FuncID(out[i][0]) < FuncID(out[j][0]) })
	return out
}
