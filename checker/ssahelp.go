package main

import (
	"go/constant"
	"go/token"
	"go/types"
	"sort"
	"strings"

	"golang.org/x/tools/go/ssa"
)

// ---------- basic call helpers ----------

// staticCallee returns the statically known callee of a call instruction:
// a declared function/method, or a closure called directly.
func staticCallee(c ssa.CallInstruction) *ssa.Function {
	cc := c.Common()
	if f := cc.StaticCallee(); f != nil {
		return f
	}
	if mc, ok := cc.Value.(*ssa.MakeClosure); ok {
		if f, ok := mc.Fn.(*ssa.Function); ok {
			return f
		}
	}
	// local variable holding a closure: load of a cell with exactly one store, of a closure/function
	if ld, ok := cc.Value.(*ssa.UnOp); ok && ld.Op == token.MUL {
		cell := cellRoot(ld.X)
		if al, ok := cell.(*ssa.Alloc); ok {
			if f := singleStoredFunc(al); f != nil {
				return f
			}
		}
	}
	return nil
}

// singleStoredFunc: the only value ever stored into local cell al is a function/closure.
func singleStoredFunc(al *ssa.Alloc) *ssa.Function {
	var found *ssa.Function
	n := 0
	var scan func(fn *ssa.Function, cell ssa.Value)
	scan = func(fn *ssa.Function, cell ssa.Value) {
		eachInstr(fn, func(_ *ssa.BasicBlock, _ int, i ssa.Instruction) {
			switch x := i.(type) {
			case *ssa.Store:
				if x.Addr == cell {
					n++
					switch v := x.Val.(type) {
					case *ssa.MakeClosure:
						found, _ = v.Fn.(*ssa.Function)
					case *ssa.Function:
						found = v
					default:
						n += 100
					}
				}
			case *ssa.MakeClosure:
				for bi, b := range x.Bindings {
					if b == cell {
						cf := x.Fn.(*ssa.Function)
						scan(cf, cf.FreeVars[bi])
					}
				}
			}
		})
	}
	scan(al.Parent(), al)
	if n == 1 {
		return found
	}
	return nil
}

// origin maps a generic instantiation to its origin function.
func origin(f *ssa.Function) *ssa.Function {
	if f != nil && f.Origin() != nil {
		return f.Origin()
	}
	return f
}

// calleeObject returns the types.Object that identifies the callee:
// *types.Func for static calls and interface invokes, *types.Var for calls
// through a struct field of func type (operation tables). nil otherwise.
func calleeObject(c ssa.CallInstruction) types.Object {
	cc := c.Common()
	if cc.IsInvoke() {
		return cc.Method
	}
	if f := staticCallee(c); f != nil {
		f = origin(f)
		if o := f.Object(); o != nil {
			return o
		}
		return nil
	}
	if f := fieldOfValue(cc.Value); f != nil {
		return f
	}
	return nil
}

// fieldOfValue: if v is a load of x.f (or Field extraction), return field f.
func fieldOfValue(v ssa.Value) *types.Var {
	switch x := v.(type) {
	case *ssa.UnOp:
		if x.Op == token.MUL {
			if fa, ok := x.X.(*ssa.FieldAddr); ok {
				return structField(fa.X.Type(), fa.Field)
			}
		}
	case *ssa.Field:
		return structField(x.X.Type(), x.Field)
	}
	return nil
}

func structField(t types.Type, i int) *types.Var {
	t = types.Unalias(t)
	if p, ok := t.Underlying().(*types.Pointer); ok {
		t = p.Elem()
	}
	if s, ok := t.Underlying().(*types.Struct); ok && i < s.NumFields() {
		return s.Field(i)
	}
	return nil
}

// objRef renders an object as "pkgpath.Name" or "pkgpath.Type.Name".
func objRef(o types.Object) string {
	if o == nil {
		return "<nil>"
	}
	pp := ""
	if o.Pkg() != nil {
		pp = strings.TrimPrefix(strings.TrimPrefix(o.Pkg().Path(), modPath), "/")
		if pp == "" {
			pp = "."
		}
	}
	switch x := o.(type) {
	case *types.Func:
		if sig, ok := x.Type().(*types.Signature); ok && sig.Recv() != nil {
			return pp + "." + recvTypeName(sig.Recv().Type()) + "." + x.Name()
		}
	case *types.Var:
		if x.IsField() {
			if own, ok := fieldOwners[x]; ok {
				return pp + "." + own + "." + x.Name()
			}
			return pp + ".<field>." + x.Name()
		}
	}
	return pp + "." + o.Name()
}

// fieldOwners maps struct fields of named module struct types to the type name (filled by Load).
var fieldOwners = map[*types.Var]string{}

func recvTypeName(t types.Type) string {
	t = types.Unalias(t)
	if p, ok := t.(*types.Pointer); ok {
		t = types.Unalias(p.Elem())
	}
	if n, ok := t.(*types.Named); ok {
		return n.Obj().Name()
	}
	return t.String()
}

// isCallTo reports whether instruction i is a call (Call/Defer/Go) whose callee object ref is in set.
func callRef(i ssa.Instruction) (ssa.CallInstruction, string) {
	c, ok := i.(ssa.CallInstruction)
	if !ok {
		return nil, ""
	}
	o := calleeObject(c)
	if o == nil {
		if b, ok := c.Common().Value.(*ssa.Builtin); ok {
			return c, "builtin." + b.Name()
		}
		if f := staticCallee(c); f != nil {
			return c, FuncID(f) // closure
		}
		return c, ""
	}
	return c, objRef(o)
}

// eachInstr visits every instruction of fn (not nested closures).
func eachInstr(fn *ssa.Function, f func(b *ssa.BasicBlock, idx int, i ssa.Instruction)) {
	for _, b := range fn.Blocks {
		for idx, i := range b.Instrs {
			f(b, idx, i)
		}
	}
}

// closuresOf returns the anonymous functions lexically inside fn, transitively.
func closuresOf(fn *ssa.Function) []*ssa.Function {
	var out []*ssa.Function
	for _, a := range fn.AnonFuncs {
		out = append(out, a)
		out = append(out, closuresOf(a)...)
	}
	return out
}

// rootFunc returns the outermost lexical parent.
func rootFunc(fn *ssa.Function) *ssa.Function {
	for fn.Parent() != nil {
		fn = fn.Parent()
	}
	return fn
}

func constString(v ssa.Value) (string, bool) {
	if c, ok := v.(*ssa.Const); ok && c.Value != nil && c.Value.Kind() == constant.String {
		return constant.StringVal(c.Value), true
	}
	return "", false
}

func constInt(v ssa.Value) (int64, bool) {
	if c, ok := v.(*ssa.Const); ok && c.Value != nil && c.Value.Kind() == constant.Int {
		n, ok := constant.Int64Val(c.Value)
		return n, ok
	}
	return 0, false
}

func isNilConst(v ssa.Value) bool {
	c, ok := v.(*ssa.Const)
	return ok && c.Value == nil
}

func isErrorType(t types.Type) bool {
	return types.Identical(t, types.Universe.Lookup("error").Type())
}

func isBoolType(t types.Type) bool {
	b, ok := t.Underlying().(*types.Basic)
	return ok && b.Info()&types.IsBoolean != 0
}

// ---------- success edges ----------

// Edge is a CFG edge From -> From.Succs[Succ].
type Edge struct {
	From *ssa.BasicBlock
	Succ int
}

// errorResults returns the values carrying the error result(s) of a call value:
// the call itself when it returns error, or the Extract of the error component.
func errorResults(call ssa.Value) []ssa.Value {
	var out []ssa.Value
	if isErrorType(call.Type()) {
		out = append(out, call)
	}
	if tup, ok := call.Type().(*types.Tuple); ok {
		for _, r := range *call.Referrers() {
			if ex, ok := r.(*ssa.Extract); ok && isErrorType(tup.At(ex.Index).Type()) {
				out = append(out, ex)
			}
		}
	}
	return out
}

// boolResults: same for bool results.
func boolResults(call ssa.Value) []ssa.Value {
	var out []ssa.Value
	if isBoolType(call.Type()) {
		out = append(out, call)
	}
	if tup, ok := call.Type().(*types.Tuple); ok {
		for _, r := range *call.Referrers() {
			if ex, ok := r.(*ssa.Extract); ok && isBoolType(tup.At(ex.Index).Type()) {
				out = append(out, ex)
			}
		}
	}
	return out
}

// aliasesOf follows v through Store-to-Alloc/Load pairs, Phi-free: returns v plus
// loads of local allocs (or free vars) that v was stored into (named results, captured vars).
// This is the small congruence mentioned in DESIGN 2.3: a Load counts as the stored value
// only if it is in the same block after the Store with no other Store to that cell in between,
// or in a block dominated by the store's block with no other store to the cell anywhere
// reachable in between (approximated: no other store to the cell in the function other than
// stores that are dominated by the load).
func aliasesOf(v ssa.Value) []ssa.Value {
	out := []ssa.Value{v}
	refs := v.Referrers()
	if refs == nil {
		return out
	}
	for _, r := range *refs {
		switch x := r.(type) {
		case *ssa.Store:
			if x.Val != v {
				continue
			}
			cell := x.Addr
			crefs := cell.Referrers()
			if crefs == nil {
				continue
			}
			for _, cr := range *crefs {
				ld, ok := cr.(*ssa.UnOp)
				if !ok || ld.Op != token.MUL || ld.X != cell {
					continue
				}
				if loadSeesStore(ld, x) {
					out = append(out, ld)
				}
			}
		case *ssa.ChangeInterface:
			out = append(out, aliasesOf(x)...)
		case *ssa.MakeInterface:
			// not an alias for error checks
		}
	}
	return out
}

// wideAliases: aliasesOf plus every load of a local cell whose only store is v (a value cached in a variable that is
// assigned once and tested later in other blocks).
func wideAliases(v ssa.Value) []ssa.Value {
	out := aliasesOf(v)
	refs := v.Referrers()
	if refs == nil {
		return out
	}
	for _, r := range *refs {
		st, ok := r.(*ssa.Store)
		if !ok || st.Val != v {
			continue
		}
		al, ok := st.Addr.(*ssa.Alloc)
		if !ok {
			continue
		}
		n := 0
		for _, cr := range *al.Referrers() {
			if s2, ok := cr.(*ssa.Store); ok && s2.Addr == ssa.Value(al) {
				n++
			}
			if _, ok := cr.(*ssa.MakeClosure); ok {
				n += 2
			}
		}
		if n != 1 {
			continue
		}
		for _, cr := range *al.Referrers() {
			if ld, ok := cr.(*ssa.UnOp); ok && ld.Op == token.MUL && ld.X == ssa.Value(al) {
				out = append(out, ld)
			}
		}
	}
	return out
}

// loadSeesStore: ld certainly observes st's value (same block, later, no store in between).
func loadSeesStore(ld *ssa.UnOp, st *ssa.Store) bool {
	if ld.Block() != st.Block() {
		return false
	}
	seen := false
	for _, i := range st.Block().Instrs {
		if i == ssa.Instruction(st) {
			seen = true
			continue
		}
		if !seen {
			continue
		}
		if i == ssa.Instruction(ld) {
			return true
		}
		if s2, ok := i.(*ssa.Store); ok && s2.Addr == st.Addr {
			return false
		}
	}
	return false
}

// condEdges returns the CFG edges on which boolean value v is known to be `want`.
// Follows !v, v == true style is not used in repo. Also handles v used via short-circuit phis? no.
func condEdges(v ssa.Value, want bool) []Edge {
	var out []Edge
	refs := v.Referrers()
	if refs == nil {
		return nil
	}
	for _, r := range *refs {
		switch x := r.(type) {
		case *ssa.If:
			if x.Cond == v {
				if want {
					out = append(out, Edge{x.Block(), 0})
				} else {
					out = append(out, Edge{x.Block(), 1})
				}
			}
		case *ssa.UnOp:
			if x.Op == token.NOT {
				out = append(out, condEdges(x, !want)...)
			}
		}
	}
	return out
}

// nilCheckEdges returns edges on which value e (error/pointer) is nil (wantNil) or non-nil.
func nilCheckEdges(e ssa.Value, wantNil bool) []Edge {
	var out []Edge
	for _, a := range aliasesOf(e) {
		refs := a.Referrers()
		if refs == nil {
			continue
		}
		for _, r := range *refs {
			b, ok := r.(*ssa.BinOp)
			if !ok || (b.Op != token.EQL && b.Op != token.NEQ) {
				continue
			}
			var other ssa.Value
			if b.X == a {
				other = b.Y
			} else {
				other = b.X
			}
			if !isNilConst(other) {
				continue
			}
			// b true means: EQL -> nil ; NEQ -> non-nil
			if b.Op == token.EQL {
				out = append(out, condEdges(b, wantNil)...)
			} else {
				out = append(out, condEdges(b, !wantNil)...)
			}
		}
	}
	return out
}

// successEdges of a call: edges where its error result is nil; for bool-returning
// gates, edges where the bool is true. ok=false if the call has neither.
func successEdges(call ssa.Value) (edges []Edge, has bool) {
	for _, e := range errorResults(call) {
		has = true
		edges = append(edges, nilCheckEdges(e, true)...)
	}
	return
}

func trueEdges(call ssa.Value) (edges []Edge) {
	for _, e := range boolResults(call) {
		for _, a := range aliasesOf(e) {
			edges = append(edges, condEdges(a, true)...)
		}
	}
	return
}

// ---------- must-pass-through dataflow ----------

// FactFlow computes, for a set of string facts, which facts hold on every path
// from the function entry to each block entry. Facts are generated by
// instructions (genInstr) and by CFG edges (genEdge); nothing kills a fact unless kill is set.
type FactFlow struct {
	fn   *ssa.Function
	in   map[*ssa.BasicBlock]map[string]bool // nil = TOP (all facts)
	genI func(ssa.Instruction) []string
	genE map[Edge][]string
	kill func(ssa.Instruction) []string
}

func NewFactFlow(fn *ssa.Function, genI func(ssa.Instruction) []string, genE map[Edge][]string, kill func(ssa.Instruction) []string, init []string) *FactFlow {
	ff := &FactFlow{fn: fn, in: map[*ssa.BasicBlock]map[string]bool{}, genI: genI, genE: genE, kill: kill}
	if len(fn.Blocks) == 0 {
		return ff
	}
	ff.in[fn.Blocks[0]] = map[string]bool{}
	for _, f := range init {
		ff.in[fn.Blocks[0]][f] = true
	}
	// recover block (if any) has no preds: treat as entry with empty facts
	if fn.Recover != nil {
		ff.in[fn.Recover] = map[string]bool{}
	}
	changed := true
	for changed {
		changed = false
		for _, b := range fn.Blocks {
			inb, ok := ff.in[b]
			if !ok {
				continue // TOP, not yet reached
			}
			out := ff.transfer(b, inb, len(b.Instrs))
			for si, s := range b.Succs {
				eo := out
				if g := genE[Edge{b, si}]; len(g) > 0 {
					eo = copySet(out)
					for _, f := range g {
						eo[f] = true
					}
				}
				cur, ok := ff.in[s]
				if !ok {
					ff.in[s] = copySet(eo)
					changed = true
					continue
				}
				for f := range cur {
					if !eo[f] {
						delete(cur, f)
						changed = true
					}
				}
			}
		}
	}
	return ff
}

func copySet(m map[string]bool) map[string]bool {
	o := make(map[string]bool, len(m))
	for k := range m {
		o[k] = true
	}
	return o
}

func (ff *FactFlow) transfer(b *ssa.BasicBlock, in map[string]bool, upto int) map[string]bool {
	out := copySet(in)
	for idx := 0; idx < upto && idx < len(b.Instrs); idx++ {
		i := b.Instrs[idx]
		if ff.kill != nil {
			for _, f := range ff.kill(i) {
				// "fact?guard": kill fact unless guard holds here
				if q := strings.IndexByte(f, '?'); q >= 0 {
					if !out[f[q+1:]] {
						delete(out, f[:q])
					}
					continue
				}
				delete(out, f)
			}
		}
		if ff.genI != nil {
			for _, f := range ff.genI(i) {
				out[f] = true
			}
		}
	}
	return out
}

// At returns the facts that hold immediately before instruction i (unreachable => all facts: returns nil,true).
func (ff *FactFlow) At(i ssa.Instruction) (facts map[string]bool, unreachable bool) {
	b := i.Block()
	in, ok := ff.in[b]
	if !ok {
		return nil, true
	}
	for idx, x := range b.Instrs {
		if x == i {
			return ff.transfer(b, in, idx), false
		}
	}
	return in, false
}

// Holds reports whether fact f holds before instruction i on every path (unreachable => true).
func (ff *FactFlow) Holds(i ssa.Instruction, f string) bool {
	facts, un := ff.At(i)
	return un || facts[f]
}

// ---------- reachability helpers ----------

// reachableFrom returns blocks reachable from (b, after index idx) including b's successors;
// b itself is included only if reachable through a cycle.
func reachableBlocks(from *ssa.BasicBlock) map[*ssa.BasicBlock]bool {
	seen := map[*ssa.BasicBlock]bool{}
	var st []*ssa.BasicBlock
	st = append(st, from.Succs...)
	for len(st) > 0 {
		b := st[len(st)-1]
		st = st[:len(st)-1]
		if seen[b] {
			continue
		}
		seen[b] = true
		st = append(st, b.Succs...)
	}
	return seen
}

// instrsAfter lists instructions that may execute after instruction i in the same function.
func instrsAfter(i ssa.Instruction) []ssa.Instruction {
	var out []ssa.Instruction
	b := i.Block()
	found := false
	for _, x := range b.Instrs {
		if found {
			out = append(out, x)
		}
		if x == i {
			found = true
		}
	}
	rb := reachableBlocks(b)
	var bs []*ssa.BasicBlock
	for x := range rb {
		bs = append(bs, x)
	}
	sort.Slice(bs, func(a, c int) bool { return bs[a].Index < bs[c].Index })
	for _, x := range bs {
		if x == b {
			// loop: all instrs up to and including i
			for _, y := range b.Instrs {
				out = append(out, y)
				if y == i {
					break
				}
			}
			continue
		}
		out = append(out, x.Instrs...)
	}
	return out
}

// returnsOf lists Return instructions of fn.
func returnsOf(fn *ssa.Function) []*ssa.Return {
	var out []*ssa.Return
	for _, b := range fn.Blocks {
		if len(b.Instrs) == 0 || b == fn.Recover {
			continue // the recover block is a panic exit, not a normal return
		}
		if r, ok := b.Instrs[len(b.Instrs)-1].(*ssa.Return); ok {
			out = append(out, r)
		}
	}
	return out
}

// freeVarBinding maps a closure's FreeVar to the value bound at its MakeClosure in the parent.
func freeVarBinding(fv *ssa.FreeVar) ssa.Value {
	cl := fv.Parent()
	par := cl.Parent()
	if par == nil {
		return nil
	}
	idx := -1
	for i, f := range cl.FreeVars {
		if f == fv {
			idx = i
		}
	}
	if idx < 0 {
		return nil
	}
	var found ssa.Value
	eachInstr(par, func(_ *ssa.BasicBlock, _ int, i ssa.Instruction) {
		if mc, ok := i.(*ssa.MakeClosure); ok && mc.Fn == cl && idx < len(mc.Bindings) {
			found = mc.Bindings[idx]
		}
	})
	return found
}

// cellRoot resolves a value that denotes a variable cell (Alloc, or FreeVar bound to an Alloc in
// an enclosing function) to the defining Alloc/Parameter cell.
func cellRoot(v ssa.Value) ssa.Value {
	for {
		fv, ok := v.(*ssa.FreeVar)
		if !ok {
			return v
		}
		b := freeVarBinding(fv)
		if b == nil {
			return v
		}
		v = b
	}
}
