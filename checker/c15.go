package main

import (
	"fmt"
	"go/token"
	"go/types"
	"sort"
	"strings"

	"golang.org/x/tools/go/ssa"
)

// C15 (one clause): a filter's encoder reads every decode parameter its decoder reads.

func init() {
	register(&Check{
		ID:  "C15",
		Run: runC15,
		Explanation: "Decides ONE structural clause of 'encoding with any accepted decode parameters, then decoding, returns the original bytes': for every filter type of pkg/filter that has both an Encode and a DecodeLength method, the set of decode-parameter keys (constant indices into the filter's parms map) read in code reachable from DecodeLength inside pkg/filter is contained in the set read in code reachable from Encode. A parameter that only the decoder interprets (Predictor, Colors, BitsPerComponent, Columns, EarlyChange) transforms the data on one side only, so Decode(Encode(x)) cannot be x for the parameter sets in which it matters. One table entry: LZWDecode reads Predictor only to reject values > 1 (such parameter sets are not accepted). " +
			"The pinned tree violated this for FlateDecode — Encode ignored the predictor parameters, a TODO said so — repaired in /repo (2218e670). " +
			"(R2) in StreamDict.Encode and decodeLength the parameter map handed to filter.NewFilter for a pipeline stage is made in that iteration (no value carried round the loop). (R3) both sides of the TIFF predictor address the neighbouring sample through the Colors value (index dependence on SSA), so the distance is the same function of the parameters on both sides; (R4) every loop of the run-length encoder that advances the scan position over the source goes on only under a linear bound position - start <= k with k+1 <= 128, the largest run a length byte can express (129 would be written as 128 = end of data). (R5) internal/filter/lzw: (largest unflushed d.o) + len(decoder.suffix) <= len(decoder.output), read from the struct type and the flush comparison; (R6) StreamDict.Encode: every successful return is after a store into Raw or behind the nil test of Content. NOT decided: that the encoder applies the inverse transformation correctly (value-level), the codecs themselves, StreamDict pipelines.",
		Rules:       []string{"C15.R1 siblings: decode parameters read by a filter's decoder are read by its encoder", "C15.R2 flow: every pipeline stage is built with parameters made from its own /DecodeParms in the same iteration", "C15.R3 dependence: the sample the TIFF differencing subtracts (encoder) or adds (decoder) is addressed through Colors", "C15.R4 range: a run-length run is cut at 128 bytes before its length byte is computed", "C15.R5 constants relation: LZW decoder pending output + longest phrase fit the output array", "C15.R6 MPT: StreamDict.Encode succeeds without storing Raw only behind Content == nil"},
		Assumptions: []string{"decode parameters are read through constant keys of the parms map"},
		Level:       "other",
		Technique:   "sibling cross-check of Encode / DecodeLength over the call graph restricted to pkg/filter",
		Note:        "Partial: parameter agreement only.",
	})
}

// c15DecoderOnly: parameters a decoder reads without interpreting data with them.
var c15DecoderOnly = map[string]string{
	"lzwDecode|Predictor": "read only to reject predictors > 1: LZW with a predictor is not an accepted parameter set",
}

func parmKeysReachable(cg *CG, root *ssa.Function) map[string]string {
	out := map[string]string{}
	seen := map[*ssa.Function]bool{}
	stack := []*ssa.Function{root}
	for len(stack) > 0 {
		f := stack[len(stack)-1]
		stack = stack[:len(stack)-1]
		if seen[f] {
			continue
		}
		seen[f] = true
		eachInstr(f, func(_ *ssa.BasicBlock, _ int, i ssa.Instruction) {
			lk, ok := i.(*ssa.Lookup)
			if !ok {
				return
			}
			if !strings.HasSuffix(fieldPath(lk.X), "parms") {
				return
			}
			if k, ok := constString(lk.Index); ok {
				if _, dup := out[k]; !dup {
					out[k] = FuncID(f)
				}
			}
		})
		for _, o := range cg.Out[f] {
			if o.Pkg != nil && o.Pkg.Pkg.Path() == modPath+"/pkg/filter" {
				// do not cross from one direction into the other
				if (root.Name() == "Encode" && (o.Name() == "Decode" || o.Name() == "DecodeLength")) || (root.Name() != "Encode" && o.Name() == "Encode") {
					continue
				}
				stack = append(stack, o)
			}
		}
	}
	return out
}

func runC15(c *Ctx) {
	p, r := c.P, c.R
	r.MinInst["C15.R1"] = 6
	r.MinInst["C15.R2"] = 2
	checkPerStageParameters(c)
	r.MinInst["C15.R3"] = 2
	checkTIFFDistance(c)
	r.MinInst["C15.R4"] = 2
	checkRunLengthRunBound(c)
	r.MinInst["C15.R5"] = 1
	checkLZWBufferRelation(c)
	r.MinInst["C15.R6"] = 2
	checkEncodeSkipsOnlyUndecoded(c)
	cg := c.CG()
	enc := map[string]*ssa.Function{}
	dec := map[string]*ssa.Function{}
	for _, fn := range p.Funcs {
		if fn.Pkg == nil || fn.Pkg.Pkg.Path() != modPath+"/pkg/filter" || fn.Signature.Recv() == nil {
			continue
		}
		t := typeNameOf(fn.Signature.Recv().Type())
		switch fn.Name() {
		case "Encode":
			enc[t] = fn
		case "DecodeLength":
			dec[t] = fn
		}
	}
	// the encodable filters of the property (CCITTFax and DCT have an Encode method that reports "unsupported")
	encodable := map[string]bool{"flate": true, "lzwDecode": true, "ascii85Decode": true, "asciiHexDecode": true, "runLengthDecode": true}
	var ts []string
	for t := range enc {
		if dec[t] != nil && encodable[t] {
			ts = append(ts, t)
		}
	}
	sort.Strings(ts)
	if len(ts) < 4 {
		r.Bad("C15.R1", "pkg/filter", "anchor", "", fmt.Sprintf("UNRESOLVED-ANCHOR: only %d filter types with Encode and DecodeLength found", len(ts)))
		return
	}
	for _, t := range ts {
		ek := parmKeysReachable(cg, enc[t])
		dk := parmKeysReachable(cg, dec[t])
		var keys []string
		for k := range dk {
			keys = append(keys, k)
		}
		sort.Strings(keys)
		if len(keys) == 0 {
			r.OK("C15.R1", FuncID(dec[t]), "decode parameters", p.Pos(dec[t].Pos()), "the decoder reads no decode parameter", false)
			continue
		}
		for _, k := range keys {
			construct := "parameter " + k
			switch {
			case ek[k] != "":
				r.OK("C15.R1", FuncID(dec[t]), construct, p.Pos(dec[t].Pos()), "read by the decoder (in "+dk[k]+") and by the encoder (in "+ek[k]+")", true)
			case c15DecoderOnly[t+"|"+k] != "":
				r.OK("C15.R1", FuncID(dec[t]), construct, p.Pos(dec[t].Pos()), "table: "+c15DecoderOnly[t+"|"+k], true)
			default:
				r.Bad("C15.R1", FuncID(enc[t]), construct, p.Pos(enc[t].Pos()), "the decoder interprets the data with decode parameter "+k+" (read in "+dk[k]+") but nothing reachable from the encoder reads it: the transformation is applied on one side only, so a stream with this parameter that is decoded, changed and encoded again does not decode to what was encoded")
			}
		}
	}
}

// ---------------- C15.R2 (round 3 seeds): each pipeline stage gets its own parameters ----------------

// checkPerStageParameters: StreamDict.Encode and StreamDict.decodeLength build one filter per pipeline stage with
// filter.NewFilter(name, parms, …). The parms handed in must be made from that stage's own /DecodeParms in the same
// iteration (parmsForFilter(f.DecodeParms)); a value carried over from a previous iteration (a φ at the loop head)
// gives a stage without parameters the parameters of its neighbour — on one side only, because the other side builds
// a fresh map per stage.
func checkPerStageParameters(c *Ctx) {
	p, r := c.P, c.R
	n := 0
	for _, fn := range p.Funcs {
		if fn.Pkg == nil || fn.Pkg.Pkg.Path() != modPath+"/pkg/pdfcpu/types" {
			continue
		}
		fn := fn
		loops := naturalLoops(fn)
		k := 0
		eachInstr(fn, func(b *ssa.BasicBlock, _ int, i ssa.Instruction) {
			call, ok := i.(*ssa.Call)
			if !ok {
				return
			}
			if _, ref := callRef(call); ref != "pkg/filter.NewFilter" || len(call.Call.Args) < 2 {
				return
			}
			var loop *natLoop
			for _, l := range loops {
				if l.blocks[b] {
					loop = l
				}
			}
			if loop == nil {
				return
			}
			k++
			n++
			construct := fmt.Sprintf("NewFilter#%d parms", k)
			carried := ""
			seen := map[ssa.Value]bool{}
			var walk func(v ssa.Value, d int)
			walk = func(v ssa.Value, d int) {
				if v == nil || d > 8 || seen[v] || carried != "" {
					return
				}
				seen[v] = true
				switch x := v.(type) {
				case *ssa.Phi:
					if x.Block() == loop.header {
						carried = "φ at the loop head (" + x.Comment + ")"
						return
					}
					for _, e := range x.Edges {
						walk(e, d+1)
					}
				case *ssa.UnOp:
					if al, ok := x.X.(*ssa.Alloc); ok && x.Op == token.MUL {
						for _, rf := range *al.Referrers() {
							if st, ok := rf.(*ssa.Store); ok && st.Addr == ssa.Value(al) {
								if !loop.blocks[st.Block()] {
									carried = "a variable assigned outside the loop (" + al.Comment + ")"
									return
								}
								walk(st.Val, d+1)
							}
						}
					}
				}
			}
			walk(call.Call.Args[1], 0)
			if carried != "" {
				r.Bad("C15.R2", FuncID(fn), construct, p.Pos(call.Pos()), "the decode parameters handed to this pipeline stage's filter can be carried over from another stage ("+carried+"): a stage without /DecodeParms then runs with its neighbour's parameters on this side only, and the stream no longer decodes to what was encoded")
			} else {
				r.OK("C15.R2", FuncID(fn), construct, p.Pos(call.Pos()), "the parameters are made in the same iteration, from this stage's own /DecodeParms", true)
			}
		})
	}
	if n == 0 {
		r.Bad("C15.R2", "pkg/pdfcpu/types", "anchor", "", "UNRESOLVED-ANCHOR: no filter.NewFilter call inside a pipeline loop")
	}
}

// ---------------- C15.R3 (round 3 seed C15-D): the TIFF differencing distance is Colors on both sides ----------------

// indexTaint closes a taint set under "an element addressed with a tainted index is tainted".
func indexTaint(c *Ctx, seeds []ssa.Value, fns []*ssa.Function) map[ssa.Value]bool {
	t := taintFrom(c, seeds)
	for {
		var more []ssa.Value
		for _, fn := range fns {
			eachInstr(fn, func(_ *ssa.BasicBlock, _ int, i ssa.Instruction) {
				switch x := i.(type) {
				case *ssa.IndexAddr:
					if t[x.Index] && !t[x] {
						more = append(more, x)
					}
				case *ssa.Index:
					if t[x.Index] && !t[x] {
						more = append(more, x)
					}
				case *ssa.Lookup:
					if t[x.Index] && !t[x] {
						more = append(more, x)
					}
				}
			})
		}
		if len(more) == 0 {
			return t
		}
		for v := range t {
			more = append(more, v)
		}
		t = taintFrom(c, more)
	}
}

// checkTIFFDistance: TIFF predictor 2 stores each sample as the difference to the sample of the same colour
// component one pixel to the left, that is Colors samples back. The decoder adds row[k-Colors]; the encoder has to
// subtract the sample at the same distance. The rule: in the functions that do the byte arithmetic on either side
// (reachable in pkg/filter from flate.encodePreProcess, and applyHorDiff), the second operand of every byte
// addition/subtraction depends on the Colors value (through an index or directly); an operand that does not is a
// fixed distance, right for Colors = 1 only.
func checkTIFFDistance(c *Ctx) {
	p, r := c.P, c.R
	cg := c.CG()
	isByte := func(t types.Type) bool {
		b, ok := t.Underlying().(*types.Basic)
		return ok && b.Kind() == types.Uint8
	}
	inFilter := func(fn *ssa.Function) bool {
		return fn.Pkg != nil && fn.Pkg.Pkg.Path() == modPath+"/pkg/filter"
	}
	// ---- encoder
	encFn := p.Func("pkg/filter.(flate).encodePreProcess")
	if encFn == nil {
		r.Bad("C15.R3", "pkg/filter.(flate).encodePreProcess", "anchor", "", "UNRESOLVED-ANCHOR: the encoder's predictor step was not found")
	} else {
		var fns []*ssa.Function
		seen := map[*ssa.Function]bool{}
		var visit func(fn *ssa.Function)
		visit = func(fn *ssa.Function) {
			if seen[fn] || !inFilter(fn) {
				return
			}
			seen[fn] = true
			fns = append(fns, fn)
			for _, o := range cg.Out[fn] {
				visit(o)
			}
		}
		visit(encFn)
		// the Colors value: first result of the parameters() call
		var seeds []ssa.Value
		eachInstr(encFn, func(_ *ssa.BasicBlock, _ int, i ssa.Instruction) {
			call, ok := i.(*ssa.Call)
			if !ok {
				return
			}
			if f := staticCallee(call); f != nil && f.Name() == "parameters" && call.Referrers() != nil {
				for _, rf := range *call.Referrers() {
					if ex, ok := rf.(*ssa.Extract); ok && ex.Index == 0 {
						seeds = append(seeds, ex)
					}
				}
			}
		})
		if len(seeds) == 0 {
			r.Bad("C15.R3", FuncID(encFn), "anchor", p.Pos(encFn.Pos()), "UNRESOLVED-ANCHOR: the encoder does not obtain Colors from flate.parameters")
		} else {
			t := indexTaint(c, seeds, fns)
			n := 0
			for _, fn := range fns {
				if fn.Name() == "parameters" || fn.Name() == "predictorRowParams" {
					continue
				}
				eachInstr(fn, func(_ *ssa.BasicBlock, _ int, i ssa.Instruction) {
					bo, ok := i.(*ssa.BinOp)
					if !ok || bo.Op != token.SUB || !isByte(bo.Type()) {
						return
					}
					n++
					construct := fmt.Sprintf("byte difference#%d", n)
					if t[bo.Y] {
						r.OK("C15.R3", FuncID(fn), construct, p.Pos(bo.Pos()), "the subtracted sample is addressed through the Colors value", true)
					} else {
						r.Bad("C15.R3", FuncID(fn), construct, p.Pos(bo.Pos()), "the encoder's TIFF differencing subtracts a sample whose position does not depend on Colors: the decoder adds the sample Colors positions to the left, so data with Colors > 1 does not decode to what was encoded")
					}
				})
			}
			if n == 0 {
				r.Bad("C15.R3", FuncID(encFn), "byte difference", p.Pos(encFn.Pos()), "UNDECIDED: no byte subtraction found on the encoder's predictor path (TIFF differencing)")
			}
		}
	}
	// ---- decoder
	decFn := p.Func("pkg/filter.applyHorDiff")
	if decFn == nil || len(decFn.Params) < 2 {
		r.Bad("C15.R3", "pkg/filter.applyHorDiff", "anchor", "", "UNRESOLVED-ANCHOR: the decoder's TIFF step was not found")
		return
	}
	t := indexTaint(c, []ssa.Value{decFn.Params[1]}, []*ssa.Function{decFn})
	n := 0
	eachInstr(decFn, func(_ *ssa.BasicBlock, _ int, i ssa.Instruction) {
		bo, ok := i.(*ssa.BinOp)
		if !ok || bo.Op != token.ADD || !isByte(bo.Type()) {
			return
		}
		n++
		construct := fmt.Sprintf("byte sum#%d", n)
		if t[bo.Y] {
			r.OK("C15.R3", FuncID(decFn), construct, p.Pos(bo.Pos()), "the added sample is addressed through the colors parameter", true)
		} else {
			r.Bad("C15.R3", FuncID(decFn), construct, p.Pos(bo.Pos()), "the decoder's TIFF step adds a sample whose position does not depend on Colors")
		}
	})
	if n == 0 {
		r.Bad("C15.R3", FuncID(decFn), "byte sum", p.Pos(decFn.Pos()), "UNDECIDED: no byte addition found in the decoder's TIFF step")
	}
}
