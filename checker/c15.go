package main

import (
	"fmt"
	"sort"
	"strings"

	"golang.org/x/tools/go/ssa"
)

// C15 (one clause): a filter's encoder reads every decode parameter its decoder reads.

func init() {
	register(&Check{
		ID:  "C15",
		Run: runC15,
		Explanation: "Decides ONE structural clause of 'encoding with any accepted decode parameters, then decoding, returns the original bytes': for every filter type of pkg/filter that has both an Encode and a DecodeLength method, the set of decode-parameter keys (constant indices into the filter's parms map) read in code reachable from DecodeLength inside pkg/filter is contained in the set read in code reachable from Encode. A parameter that only the decoder interprets (Predictor, Colors, BitsPerComponent, Columns, EarlyChange) transforms the data on one side only, so Decode(Encode(x)) cannot be x for the parameter sets in which it matters. One table entry: LZWDecode reads Predictor only to reject values > 1 (such parameter sets are not accepted). " +
			"The pinned tree violated this for FlateDecode — Encode ignored the predictor parameters, a TODO said so — repaired in /repo (2218e670). " +
			"NOT decided: that the encoder applies the inverse transformation correctly (value-level), the codecs themselves, StreamDict pipelines.",
		Rules:       []string{"C15.R1 siblings: decode parameters read by a filter's decoder are read by its encoder"},
		Assumptions: []string{"decode parameters are read through constant keys of the parms map"},
		Level:       "other",
		Technique:   "sibling cross-check of Encode / DecodeLength over the call graph restricted to pkg/filter",
		Note:        "Partial: parameter agreement only.",
	})
}

// c15DecoderOnly: parameters a decoder reads without interpreting data with them.
var c15DecoderOnly = map[string]string{
	"lzwDecode|Predictor": "read only to reject predictors > 1: LZW with a predictor is not an accepted parameter set",
}

func parmKeysReachable(cg *CG, root *ssa.Function) map[string]string {
	out := map[string]string{}
	seen := map[*ssa.Function]bool{}
	stack := []*ssa.Function{root}
	for len(stack) > 0 {
		f := stack[len(stack)-1]
		stack = stack[:len(stack)-1]
		if seen[f] {
			continue
		}
		seen[f] = true
		eachInstr(f, func(_ *ssa.BasicBlock, _ int, i ssa.Instruction) {
			lk, ok := i.(*ssa.Lookup)
			if !ok {
				return
			}
			if !strings.HasSuffix(fieldPath(lk.X), "parms") {
				return
			}
			if k, ok := constString(lk.Index); ok {
				if _, dup := out[k]; !dup {
					out[k] = FuncID(f)
				}
			}
		})
		for _, o := range cg.Out[f] {
			if o.Pkg != nil && o.Pkg.Pkg.Path() == modPath+"/pkg/filter" {
				// do not cross from one direction into the other
				if (root.Name() == "Encode" && (o.Name() == "Decode" || o.Name() == "DecodeLength")) || (root.Name() != "Encode" && o.Name() == "Encode") {
					continue
				}
				stack = append(stack, o)
			}
		}
	}
	return out
}

func runC15(c *Ctx) {
	p, r := c.P, c.R
	r.MinInst["C15.R1"] = 6
	cg := c.CG()
	enc := map[string]*ssa.Function{}
	dec := map[string]*ssa.Function{}
	for _, fn := range p.Funcs {
		if fn.Pkg == nil || fn.Pkg.Pkg.Path() != modPath+"/pkg/filter" || fn.Signature.Recv() == nil {
			continue
		}
		t := typeNameOf(fn.Signature.Recv().Type())
		switch fn.Name() {
		case "Encode":
			enc[t] = fn
		case "DecodeLength":
			dec[t] = fn
		}
	}
	// the encodable filters of the property (CCITTFax and DCT have an Encode method that reports "unsupported")
	encodable := map[string]bool{"flate": true, "lzwDecode": true, "ascii85Decode": true, "asciiHexDecode": true, "runLengthDecode": true}
	var ts []string
	for t := range enc {
		if dec[t] != nil && encodable[t] {
			ts = append(ts, t)
		}
	}
	sort.Strings(ts)
	if len(ts) < 4 {
		r.Bad("C15.R1", "pkg/filter", "anchor", "", fmt.Sprintf("UNRESOLVED-ANCHOR: only %d filter types with Encode and DecodeLength found", len(ts)))
		return
	}
	for _, t := range ts {
		ek := parmKeysReachable(cg, enc[t])
		dk := parmKeysReachable(cg, dec[t])
		var keys []string
		for k := range dk {
			keys = append(keys, k)
		}
		sort.Strings(keys)
		if len(keys) == 0 {
			r.OK("C15.R1", FuncID(dec[t]), "decode parameters", p.Pos(dec[t].Pos()), "the decoder reads no decode parameter", false)
			continue
		}
		for _, k := range keys {
			construct := "parameter " + k
			switch {
			case ek[k] != "":
				r.OK("C15.R1", FuncID(dec[t]), construct, p.Pos(dec[t].Pos()), "read by the decoder (in "+dk[k]+") and by the encoder (in "+ek[k]+")", true)
			case c15DecoderOnly[t+"|"+k] != "":
				r.OK("C15.R1", FuncID(dec[t]), construct, p.Pos(dec[t].Pos()), "table: "+c15DecoderOnly[t+"|"+k], true)
			default:
				r.Bad("C15.R1", FuncID(enc[t]), construct, p.Pos(enc[t].Pos()), "the decoder interprets the data with decode parameter "+k+" (read in "+dk[k]+") but nothing reachable from the encoder reads it: the transformation is applied on one side only, so a stream with this parameter that is decoded, changed and encoded again does not decode to what was encoded")
			}
		}
	}
}
