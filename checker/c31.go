package main

import (
	"fmt"
	"go/constant"
	"go/token"
	"go/types"
	"sort"
	"strings"

	"golang.org/x/tools/go/ssa"
)

// C31 (range clause): every page number that enters a page selection set or a page collection is within
// 1..pageCount, shown by dominating comparisons (a small relational range argument on SSA).

func init() {
	register(&Check{
		ID:  "C31",
		Run: runC31,
		Explanation: "Decides ONE clause of the property — 'the selected pages … are always within 1 to the page count; page collections … also within range' — for the functions of pkg/api/selectPages.go. " +
			"Sinks: every key stored into a types.IntSet, every element appended to a []int page collection, and every argument handed to processPageForCollection. " +
			"For each sink value k the rule proves k ≥ 1 and k ≤ pageCount at the sink from the shape of the code: constants; the pageCount parameter; comparisons on dominating branch edges (if i > pageCount { return }, the loop guard j <= thru, if pageCount-i < 1 { return }; expressions are matched structurally because SSA recomputes pageCount-i); clamps (a φ whose every incoming edge is bounded: if thru > pageCount { thru = pageCount }); loop counters (φ(init, φ+c), c > 0: lower bound by induction from init, upper bound from the loop guard); a − b with a bounded above and b ≥ 0; keys read back from another selection set. " +
			"A sink whose bound cannot be shown is reported with the bound that is missing. (R3, one clause of left-to-right evaluation) 'even'/'odd' recognise an already decided page by its presence in the set, so no handler deletes from a selection set — a negated term stores false. (R4) every range over a page selection reads the value, false meaning taken out; (R5) in calcSelPages the term handler's call dominates every back edge of the loop over the terms. (R6) the lower-bound tests (v < 1) of each X / XForCollection pair have the same drop/continue classification in source order; (R7) no function of the file deletes from a slice in place inside a loop whose counter is incremented regardless. NOT decided: which pages a term selects beyond that (negation, even/odd arithmetic), order and repetition in collections, rejection of expressions outside the syntax — those are the meaning of the grammar over all expressions, not a shape of the code.",
		Rules:       []string{"C31.R1 range: page numbers entering a selection set or collection are ≥ 1", "C31.R2 range: page numbers entering a selection set or collection are ≤ pageCount", "C31.R3 shape: nothing is deleted from a selection set (even/odd recognise a decided page by its presence)", "C31.R4 shape: every loop over a page selection reads the entry's value", "C31.R5 dominance: every term of the expression reaches the term handler, in order", "C31.R6 siblings: selection and collection evaluators of a term shape treat page numbers below 1 alike", "C31.R7 shape: no in-place deletion from an indexed slice under a running counter (collection removal examines every element)"},
		Assumptions: []string{"tokens handed to the handlers match the selection syntax (ParsePageSelection ran), whose number groups are \\d+: strconv.Atoi results are ≥ 0", "pageCount ≥ 1 (a document has at least one page)"},
		Level:       "other",
		Technique:   "relational range argument on SSA: dominating-edge comparison facts, structural expression matching, φ-edge case split, induction on loop counters",
		Note:        "Partial: the range clause only.",
	})
}

const c31File = "pkg/api/selectPages.go"

// c31Exempt: appends that are not producers of page numbers.
var c31Exempt = map[string]string{
	"pkg/api.deletePageFromCollection": "re-appends the elements already in the collection (minus one); it produces no new page number",
}

type c31Point struct {
	b     *ssa.BasicBlock
	extra *Edge // an additional edge taken to reach the point (φ incoming edge)
}

type c31Fact struct {
	kind string // LE, LT, EQ, NE   (a kind b)
	a, b ssa.Value
}

type c31Prover struct {
	fn      *ssa.Function
	pc      ssa.Value // the pageCount parameter (nil if the function has none)
	// generalisation used by C09.R5: base says "this value is bounded by construction";
	// unlimited says "at this point no bound has to be enforced" (no limit configured)
	base      func(v ssa.Value) bool
	unlimited func(f c31Fact) bool
	split     int
	inprog  map[string]bool
	usedA1  bool
	usedA2  bool
	factsOf map[string][]c31Fact
}

func newC31Prover(fn *ssa.Function) *c31Prover {
	pr := &c31Prover{fn: fn, inprog: map[string]bool{}, factsOf: map[string][]c31Fact{}}
	for _, p := range fn.Params {
		if p.Name() == "pageCount" {
			if b, ok := p.Type().Underlying().(*types.Basic); ok && b.Kind() == types.Int {
				pr.pc = p
			}
		}
	}
	return pr
}

func c31Canon(v ssa.Value, d int) string {
	if d > 4 {
		return v.Name()
	}
	switch x := v.(type) {
	case *ssa.Const:
		if x.Value != nil {
			return "const:" + x.Value.ExactString()
		}
	case *ssa.Parameter:
		return "param:" + x.Name()
	case *ssa.BinOp:
		return "(" + c31Canon(x.X, d+1) + x.Op.String() + c31Canon(x.Y, d+1) + ")"
	case *ssa.Convert:
		return c31Canon(x.X, d+1)
	case *ssa.ChangeType:
		return c31Canon(x.X, d+1)
	case *ssa.Call:
		if b, ok := x.Call.Value.(*ssa.Builtin); ok && b.Name() == "len" && len(x.Call.Args) == 1 {
			if fp := fieldPath(x.Call.Args[0]); fp != "" {
				return "len:" + accessPath(x.Call.Args[0])
			}
		}
	case *ssa.UnOp:
		if x.Op == token.MUL {
			if fa, ok := x.X.(*ssa.FieldAddr); ok && !fieldStoredIn(x.Parent(), accessPath(fa)) {
				// two loads of a field nothing in this function writes are the same quantity
				return "load:" + accessPath(x)
			}
		}
	}
	return fmt.Sprintf("%s@%p", v.Name(), v)
}

func c31Same(a, b ssa.Value) bool { return a == b || c31Canon(a, 0) == c31Canon(b, 0) }

func condFacts(cond ssa.Value, truth bool) []c31Fact {
	switch c := cond.(type) {
	case *ssa.UnOp:
		if c.Op == token.NOT {
			return condFacts(c.X, !truth)
		}
	case *ssa.BinOp:
		x, y := c.X, c.Y
		switch c.Op {
		case token.LSS:
			if truth {
				return []c31Fact{{"LT", x, y}}
			}
			return []c31Fact{{"LE", y, x}}
		case token.LEQ:
			if truth {
				return []c31Fact{{"LE", x, y}}
			}
			return []c31Fact{{"LT", y, x}}
		case token.GTR:
			if truth {
				return []c31Fact{{"LT", y, x}}
			}
			return []c31Fact{{"LE", x, y}}
		case token.GEQ:
			if truth {
				return []c31Fact{{"LE", y, x}}
			}
			return []c31Fact{{"LT", x, y}}
		case token.EQL:
			if truth {
				return []c31Fact{{"EQ", x, y}}
			}
			return []c31Fact{{"NE", x, y}}
		case token.NEQ:
			if truth {
				return []c31Fact{{"NE", x, y}}
			}
			return []c31Fact{{"EQ", x, y}}
		}
	}
	return nil
}

func (pr *c31Prover) facts(pt c31Point) []c31Fact {
	key := fmt.Sprintf("%d", pt.b.Index)
	if pt.extra != nil {
		key += fmt.Sprintf("+%d.%d", pt.extra.From.Index, pt.extra.Succ)
	}
	if f, ok := pr.factsOf[key]; ok {
		return f
	}
	var out []c31Fact
	add := func(e Edge) {
		if len(e.From.Instrs) == 0 {
			return
		}
		iff, ok := e.From.Instrs[len(e.From.Instrs)-1].(*ssa.If)
		if !ok {
			return
		}
		out = append(out, condFacts(iff.Cond, e.Succ == 0)...)
	}
	for x := pt.b; x != nil; x = x.Idom() {
		// edges out of x's dominators (and x's own incoming single edge) that dominate pt.b
		if id := x.Idom(); id != nil {
			for si := range id.Succs {
				if edgeDominates(Edge{id, si}, pt.b) {
					add(Edge{id, si})
				}
			}
		}
	}
	// any If block that dominates pt.b through one of its edges but is not an immediate dominator of a chain block
	for _, x := range pr.fn.Blocks {
		for si := range x.Succs {
			if len(x.Succs) == 2 && edgeDominates(Edge{x, si}, pt.b) {
				add(Edge{x, si})
			}
		}
	}
	if pt.extra != nil {
		add(*pt.extra)
	}
	// dedupe
	seen := map[string]bool{}
	var ded []c31Fact
	for _, f := range out {
		k := f.kind + "|" + c31Canon(f.a, 0) + "|" + c31Canon(f.b, 0)
		if !seen[k] {
			seen[k] = true
			ded = append(ded, f)
		}
	}
	pr.factsOf[key] = ded
	return ded
}

func c31ConstInt(v ssa.Value) (int64, bool) {
	if c, ok := v.(*ssa.Const); ok && c.Value != nil && c.Value.Kind() == constant.Int {
		return constant.Int64Val(c.Value)
	}
	return 0, false
}

func isSelectionSet(t types.Type) bool {
	return strings.HasSuffix(t.String(), "pkg/pdfcpu/types.IntSet")
}

// keyOfSelectionSet: v is a key obtained by ranging over a selection set.
func keyOfSelectionSet(v ssa.Value) bool {
	ex, ok := v.(*ssa.Extract)
	if !ok || ex.Index != 1 {
		return false
	}
	nx, ok := ex.Tuple.(*ssa.Next)
	if !ok {
		return false
	}
	rg, ok := nx.Iter.(*ssa.Range)
	return ok && isSelectionSet(rg.X.Type())
}

func isAtoiResult(v ssa.Value) bool {
	ex, ok := v.(*ssa.Extract)
	if !ok || ex.Index != 0 {
		return false
	}
	call, ok := ex.Tuple.(*ssa.Call)
	if !ok {
		return false
	}
	_, ref := callRef(call)
	return ref == "strconv.Atoi"
}

func (pr *c31Prover) phiEdges(ph *ssa.Phi, f func(v ssa.Value, pt c31Point) bool) bool {
	for k, ev := range ph.Edges {
		pred := ph.Block().Preds[k]
		var extra *Edge
		for si, sb := range pred.Succs {
			if sb == ph.Block() && len(pred.Succs) == 2 {
				e := Edge{pred, si}
				extra = &e
			}
		}
		if !f(ev, c31Point{b: pred, extra: extra}) {
			return false
		}
	}
	return true
}

func (pr *c31Prover) guard(kind string, v ssa.Value, pt c31Point, coinductive bool, body func() bool) bool {
	key := fmt.Sprintf("%s|%p|%d", kind, v, pt.b.Index)
	if pt.extra != nil {
		key += fmt.Sprintf("+%d.%d", pt.extra.From.Index, pt.extra.Succ)
	}
	if pr.inprog[key] {
		return coinductive
	}
	pr.inprog[key] = true
	defer delete(pr.inprog, key)
	return body()
}

// lep: v ≤ pageCount at pt.
func (pr *c31Prover) lep(v ssa.Value, pt c31Point) bool {
	return pr.guard("LEP", v, pt, false, func() bool {
		if pr.pc != nil && c31Same(v, pr.pc) {
			return true
		}
		if pr.base != nil && pr.base(v) {
			return true
		}
		if keyOfSelectionSet(v) {
			return true
		}
		for _, f := range pr.facts(pt) {
			if pr.unlimited != nil && pr.unlimited(f) {
				return true
			}
			switch f.kind {
			case "LE", "LT":
				if c31Same(f.a, v) && !c31Same(f.b, v) && pr.lep(f.b, pt) {
					return true
				}
			case "EQ":
				if c31Same(f.a, v) && !c31Same(f.b, v) && pr.lep(f.b, pt) {
					return true
				}
				if c31Same(f.b, v) && !c31Same(f.a, v) && pr.lep(f.a, pt) {
					return true
				}
			}
		}
		if name, args := minMaxArgs(v); name == "min" {
			return pr.anyOf(args, pt, pr.lep)
		} else if name == "max" {
			return pr.allOf(args, pt, pr.lep)
		}
		switch x := v.(type) {
		case *ssa.BinOp:
			if x.Op == token.SUB {
				return pr.lep(x.X, pt) && pr.ge0(x.Y, pt)
			}
		case *ssa.Phi:
			return pr.phiEdges(x, pr.lep)
		case *ssa.Convert:
			return pr.lep(x.X, pt)
		case *ssa.ChangeType:
			return pr.lep(x.X, pt)
		}
		// case split over the ways into this block (short-circuit conditions join here)
		if pt.extra == nil && len(pt.b.Preds) >= 2 && pr.split < 3 && availableAt(v, pt.b) {
			pr.split++
			defer func() { pr.split-- }()
			for _, pred := range pt.b.Preds {
				var extra *Edge
				for si, sb := range pred.Succs {
					if sb == pt.b && len(pred.Succs) == 2 {
						e := Edge{pred, si}
						extra = &e
					}
				}
				if !pr.lep(v, c31Point{b: pred, extra: extra}) {
					return false
				}
			}
			return true
		}
		return false
	})
}

// availableAt: v is defined before every predecessor of b ends (a parameter, a constant, or an instruction
// whose block strictly dominates b).
func availableAt(v ssa.Value, b *ssa.BasicBlock) bool {
	switch x := v.(type) {
	case *ssa.Parameter, *ssa.Const, *ssa.FreeVar, *ssa.Global:
		return true
	case ssa.Instruction:
		return x.Block() != b && x.Block().Dominates(b)
	}
	return false
}

// ge1: v ≥ 1 at pt.
func (pr *c31Prover) ge1(v ssa.Value, pt c31Point) bool {
	return pr.guard("GE1", v, pt, true, func() bool {
		if n, ok := c31ConstInt(v); ok {
			return n >= 1
		}
		if pr.pc != nil && c31Same(v, pr.pc) {
			pr.usedA2 = true
			return true
		}
		if keyOfSelectionSet(v) {
			return true
		}
		for _, f := range pr.facts(pt) {
			switch f.kind {
			case "LT": // a < v
				if c31Same(f.b, v) && !c31Same(f.a, v) && pr.ge0(f.a, pt) {
					return true
				}
			case "LE": // a ≤ v
				if c31Same(f.b, v) && !c31Same(f.a, v) && pr.ge1(f.a, pt) {
					return true
				}
			case "EQ":
				if c31Same(f.a, v) && !c31Same(f.b, v) && pr.ge1(f.b, pt) {
					return true
				}
				if c31Same(f.b, v) && !c31Same(f.a, v) && pr.ge1(f.a, pt) {
					return true
				}
			case "NE":
				var other ssa.Value
				if c31Same(f.a, v) {
					other = f.b
				} else if c31Same(f.b, v) {
					other = f.a
				}
				if other != nil {
					if n, ok := c31ConstInt(other); ok && n == 0 && pr.ge0NoFacts(v, pt) {
						return true
					}
				}
			}
		}
		if name, args := minMaxArgs(v); name == "max" {
			return pr.anyOf(args, pt, pr.ge1)
		} else if name == "min" {
			return pr.allOf(args, pt, pr.ge1)
		}
		switch x := v.(type) {
		case *ssa.BinOp:
			if x.Op == token.ADD {
				return (pr.ge1(x.X, pt) && pr.ge0(x.Y, pt)) || (pr.ge0(x.X, pt) && pr.ge1(x.Y, pt))
			}
		case *ssa.Phi:
			return pr.phiEdges(x, pr.ge1)
		case *ssa.Convert:
			return pr.ge1(x.X, pt)
		case *ssa.ChangeType:
			return pr.ge1(x.X, pt)
		}
		return false
	})
}

// ge0NoFacts: v ≥ 0 for a reason that does not itself rest on the v != 0 fact.
func (pr *c31Prover) ge0NoFacts(v ssa.Value, pt c31Point) bool {
	if n, ok := c31ConstInt(v); ok {
		return n >= 0
	}
	if isAtoiResult(v) {
		pr.usedA1 = true
		return true
	}
	return false
}

// ge0: v ≥ 0 at pt.
func (pr *c31Prover) ge0(v ssa.Value, pt c31Point) bool {
	return pr.guard("GE0", v, pt, true, func() bool {
		if pr.ge0NoFacts(v, pt) {
			return true
		}
		if call, ok := v.(*ssa.Call); ok {
			if b, ok := call.Call.Value.(*ssa.Builtin); ok && (b.Name() == "len" || b.Name() == "cap") {
				return true
			}
		}
		if pr.ge1(v, pt) {
			return true
		}
		if name, args := minMaxArgs(v); name == "max" {
			return pr.anyOf(args, pt, pr.ge0)
		} else if name == "min" {
			return pr.allOf(args, pt, pr.ge0)
		}
		for _, f := range pr.facts(pt) {
			if (f.kind == "LE" || f.kind == "LT") && c31Same(f.b, v) && !c31Same(f.a, v) && pr.ge0(f.a, pt) {
				return true
			}
		}
		switch x := v.(type) {
		case *ssa.BinOp:
			if x.Op == token.ADD || x.Op == token.MUL {
				return pr.ge0(x.X, pt) && pr.ge0(x.Y, pt)
			}
		case *ssa.Phi:
			return pr.phiEdges(x, pr.ge0)
		case *ssa.Convert:
			return pr.ge0(x.X, pt)
		}
		return false
	})
}

// minMaxArgs: v is a call of the builtin min or max.
func minMaxArgs(v ssa.Value) (name string, args []ssa.Value) {
	call, ok := v.(*ssa.Call)
	if !ok {
		return "", nil
	}
	b, ok := call.Call.Value.(*ssa.Builtin)
	if !ok || (b.Name() != "min" && b.Name() != "max") {
		return "", nil
	}
	return b.Name(), call.Call.Args
}

func (pr *c31Prover) anyOf(args []ssa.Value, pt c31Point, f func(ssa.Value, c31Point) bool) bool {
	for _, a := range args {
		if f(a, pt) {
			return true
		}
	}
	return false
}

func (pr *c31Prover) allOf(args []ssa.Value, pt c31Point, f func(ssa.Value, c31Point) bool) bool {
	for _, a := range args {
		if !f(a, pt) {
			return false
		}
	}
	return len(args) > 0
}

type c31Sink struct {
	fn   *ssa.Function
	at   ssa.Instruction
	v    ssa.Value
	what string
}

func collectC31Sinks(p *Program) (sinks []c31Sink, exempt []string) {
	var fns []*ssa.Function
	for _, fn := range p.Funcs {
		if strings.HasSuffix(p.Fset.Position(fn.Pos()).Filename, c31File) {
			fns = append(fns, fn)
		}
	}
	sort.Slice(fns, func(i, j int) bool { return FuncID(fns[i]) < FuncID(fns[j]) })
	// functions whose int parameter is itself appended / stored: their call sites are the sinks
	paramSinks := map[*ssa.Function]map[int]bool{}
	type raw struct {
		fn   *ssa.Function
		at   ssa.Instruction
		v    ssa.Value
		what string
	}
	var raws []raw
	for _, fn := range fns {
		fn := fn
		if why, ok := c31Exempt[FuncID(fn)]; ok {
			exempt = append(exempt, FuncID(fn)+": "+why)
			continue
		}
		eachInstr(fn, func(_ *ssa.BasicBlock, _ int, i ssa.Instruction) {
			switch x := i.(type) {
			case *ssa.MapUpdate:
				if isSelectionSet(x.Map.Type()) {
					raws = append(raws, raw{fn, x, x.Key, "key stored into the selection set"})
				}
			case *ssa.Call:
				if b, ok := x.Call.Value.(*ssa.Builtin); ok && b.Name() == "append" {
					if st, ok := x.Type().Underlying().(*types.Slice); ok {
						if bt, ok := st.Elem().Underlying().(*types.Basic); ok && bt.Kind() == types.Int {
							for _, e := range variadicElems(x) {
								raws = append(raws, raw{fn, x, e, "page number appended to the collection"})
							}
						}
					}
				}
			}
		})
	}
	for _, rw := range raws {
		if prm, ok := rw.v.(*ssa.Parameter); ok && prm.Name() != "pageCount" {
			idx := paramIndex(rw.fn, prm)
			if idx >= 0 {
				if paramSinks[rw.fn] == nil {
					paramSinks[rw.fn] = map[int]bool{}
				}
				paramSinks[rw.fn][idx] = true
				continue
			}
		}
		sinks = append(sinks, c31Sink{rw.fn, rw.at, rw.v, rw.what})
	}
	// call sites of parameter sinks
	for _, fn := range fns {
		fn := fn
		if _, ok := c31Exempt[FuncID(fn)]; ok {
			continue
		}
		eachInstr(fn, func(_ *ssa.BasicBlock, _ int, i ssa.Instruction) {
			call, ok := i.(*ssa.Call)
			if !ok {
				return
			}
			callee := staticCallee(call)
			if callee == nil {
				return
			}
			for idx := range paramSinks[callee] {
				if idx < len(call.Call.Args) {
					sinks = append(sinks, c31Sink{fn, call, call.Call.Args[idx], "page number handed to " + callee.Name()})
				}
			}
		})
	}
	return
}

func runC31(c *Ctx) {
	p, r := c.P, c.R
	r.MinInst["C31.R1"] = 20
	r.MinInst["C31.R2"] = 20
	r.MinInst["C31.R3"] = 1
	r.MinInst["C31.R4"] = 10
	r.MinInst["C31.R5"] = 1
	checkSelectionValueRead(c)
	checkEveryTermEvaluated(c)
	r.MinInst["C31.R6"] = 3
	r.MinInst["C31.R7"] = 5
	checkSelectionCollectionSiblings(c)
	checkCollectionRemovalComplete(c)
	checkDecidedPagesStay(c)
	sinks, exempt := collectC31Sinks(p)
	for _, e := range exempt {
		r.Note("exempt: %s", e)
	}
	if len(sinks) == 0 {
		r.Bad("C31.R1", c31File, "anchor", "", "UNRESOLVED-ANCHOR: no selection-set store or collection append found in "+c31File)
		return
	}
	count := map[string]int{}
	a1, a2 := 0, 0
	for _, s := range sinks {
		pr := newC31Prover(s.fn)
		pt := c31Point{b: s.at.Block()}
		fid := FuncID(s.fn)
		base := fmt.Sprintf("%s %s", s.what, c31Describe(s.v))
		count[fid+"|"+base]++
		construct := base
		if n := count[fid+"|"+base]; n > 1 {
			construct = fmt.Sprintf("%s#%d", base, n)
		}
		pos := p.Pos(s.at.Pos())
		if pr.pc == nil && !isConstLike(s.v) && !keyOfSelectionSet(s.v) {
			// no pageCount in scope: the bound has to come from somewhere else
		}
		lo := pr.ge1(s.v, pt)
		if lo {
			r.OK("C31.R1", fid, construct, pos, "≥ 1 at the sink (constants, dominating comparisons, loop induction)", true)
		} else {
			r.Bad("C31.R1", fid, construct, pos, "nothing on the way to this "+s.what+" shows it is ≥ 1: a page number 0 (the syntax's \\d+ admits it) is selected, outside 1..pageCount")
		}
		hi := pr.lep(s.v, pt)
		if hi {
			r.OK("C31.R2", fid, construct, pos, "≤ pageCount at the sink (dominating comparison, clamp or loop guard against a bounded value)", true)
		} else {
			r.Bad("C31.R2", fid, construct, pos, "nothing on the way to this "+s.what+" shows it is ≤ pageCount: a page beyond the document is selected")
		}
		if pr.usedA1 {
			a1++
		}
		if pr.usedA2 {
			a2++
		}
	}
	r.Note("%d sinks; assumption 'Atoi results ≥ 0' used for %d, 'pageCount ≥ 1' for %d", len(sinks), a1, a2)
}

func isConstLike(v ssa.Value) bool { _, ok := v.(*ssa.Const); return ok }

func c31Describe(v ssa.Value) string {
	switch x := v.(type) {
	case *ssa.Const:
		return x.Value.ExactString()
	case *ssa.Parameter:
		return x.Name()
	case *ssa.Phi:
		if x.Comment != "" {
			return x.Comment
		}
	case *ssa.Extract:
		if isAtoiResult(v) {
			return "Atoi result"
		}
		if keyOfSelectionSet(v) {
			return "key of a selection set"
		}
	}
	return "value"
}

// ---------------- C31.R3 (seed C31-A): a decided page stays decided ----------------

// checkDecidedPagesStay: 'even' / 'odd' add only the pages "that no earlier term decided", and they recognise a decided page
// by its PRESENCE in the set (selectEvenPages: `_, found := selectedPages[i]`). A negated term therefore has to store false —
// if it deletes the key, a later even/odd brings the deselected page back. So: in the selection handlers nothing is deleted
// from a selection set, and every store into it writes the term's polarity (derived from the `negated` flag) or the
// constant true of even/odd/all.
func checkDecidedPagesStay(c *Ctx) {
	p, r := c.P, c.R
	n := 0
	presence := 0
	for _, fn := range p.Funcs {
		if !strings.HasSuffix(p.Fset.Position(fn.Pos()).Filename, c31File) {
			continue
		}
		fn := fn
		k := 0
		eachInstr(fn, func(_ *ssa.BasicBlock, _ int, i ssa.Instruction) {
			switch x := i.(type) {
			case *ssa.Call:
				if b, ok := x.Call.Value.(*ssa.Builtin); ok && b.Name() == "delete" && len(x.Call.Args) == 2 && isSelectionSet(x.Call.Args[0].Type()) {
					k++
					n++
					r.Bad("C31.R3", FuncID(fn), fmt.Sprintf("delete from the selection set#%d", k), p.Pos(x.Pos()), "a page is deleted from the selection set: 'even' and 'odd' treat a page that is not in the set as undecided, so a later even/odd term selects again what this term deselected — the terms are no longer evaluated left to right")
				}
			case *ssa.Lookup:
				if x.CommaOk && isSelectionSet(x.X.Type()) {
					presence++
				}
			}
		})
	}
	if presence == 0 {
		r.OK("C31.R3", c31File, "decided pages stay", "", "no handler tests a page's presence in the set any more: deletion would not be observable", false)
		return
	}
	if n == 0 {
		r.OK("C31.R3", c31File, "decided pages stay", "", fmt.Sprintf("%d presence tests (even/odd look at whether a page was decided); no handler deletes from a selection set", presence), true)
	}
}


var fieldStoreCache = map[*ssa.Function]map[string]bool{}

// fieldStoredIn: fn (or a closure of it) stores to a field with this access path.
func fieldStoredIn(fn *ssa.Function, ap string) bool {
	if fn == nil {
		return true
	}
	m, ok := fieldStoreCache[fn]
	if !ok {
		m = map[string]bool{}
		var visit func(f *ssa.Function)
		visit = func(f *ssa.Function) {
			for _, b := range f.Blocks {
				for _, i := range b.Instrs {
					if st, ok := i.(*ssa.Store); ok {
						if fa, ok := st.Addr.(*ssa.FieldAddr); ok {
							m[accessPath(fa)] = true
						}
					}
				}
			}
			for _, a := range f.AnonFuncs {
				visit(a)
			}
		}
		visit(fn)
		fieldStoreCache[fn] = m
	}
	return m[ap]
}

func init() {
	extraDebug["selranges"] = func(p *Program) {
		for _, fn := range p.Funcs {
			if !isSubject(fn) {
				continue
			}
			eachInstr(fn, func(_ *ssa.BasicBlock, _ int, i ssa.Instruction) {
				rg, ok := i.(*ssa.Range)
				if !ok || !isSelectionSet(rg.X.Type()) {
					return
				}
				valUsed := false
				for _, nx := range *rg.Referrers() {
					n, ok := nx.(*ssa.Next)
					if !ok {
						continue
					}
					for _, ex := range *n.Referrers() {
						if e, ok := ex.(*ssa.Extract); ok && e.Index == 2 && e.Referrers() != nil && len(*e.Referrers()) > 0 {
							valUsed = true
						}
					}
				}
				fmt.Printf("%v\t%v\t%s\t%s\t%s\n", valUsed, isPageSelectionValue(rg.X), FuncID(fn), p.Pos(rg.Pos()), exprName(rg.X))
			})
		}
	}
}

// ---------------- C31.R4 / R5 (round 3 seeds C31-C, C31-D) ----------------

// R4: a page selection is a map page -> bool in which false means "taken out by a negated term"; membership is
// not selection. Every loop over a page selection therefore reads the value; a loop over the keys alone treats
// the pages of `!3` as selected (RemainingPagesForPageRemoval would remove page 3 for "1-5,!3").
func checkSelectionValueRead(c *Ctx) {
	p, r := c.P, c.R
	n := 0
	for _, fn := range p.Funcs {
		if !isSubject(fn) {
			continue
		}
		k := 0
		eachInstr(fn, func(_ *ssa.BasicBlock, _ int, i ssa.Instruction) {
			rg, ok := i.(*ssa.Range)
			if !ok || !isSelectionSet(rg.X.Type()) || !isPageSelectionValue(rg.X) || rg.Referrers() == nil {
				return
			}
			k++
			n++
			construct := fmt.Sprintf("range over page selection#%d", k)
			valUsed := false
			for _, nx := range *rg.Referrers() {
				nn, ok := nx.(*ssa.Next)
				if !ok || nn.Referrers() == nil {
					continue
				}
				for _, ex := range *nn.Referrers() {
					if e, ok := ex.(*ssa.Extract); ok && e.Index == 2 && e.Referrers() != nil && len(*e.Referrers()) > 0 {
						valUsed = true
					}
				}
			}
			if valUsed {
				r.OK("C31.R4", FuncID(fn), construct, p.Pos(rg.Pos()), "the loop reads the entry's value (false = taken out by a negated term)", true)
			} else {
				r.Bad("C31.R4", FuncID(fn), construct, p.Pos(rg.Pos()), "the loop over a page selection uses the keys only: an entry with the value false (a page a negated term such as !3 took out) is treated as selected")
			}
		})
	}
	if n == 0 {
		r.Bad("C31.R4", "-", "anchor", "", "UNRESOLVED-ANCHOR: no loop over a page selection found")
	}
}

// R5: terms are evaluated left to right and each one acts on the set as the terms before it left it, so the
// same term can act differently at two positions ("1-3,!2,1-3" ends with page 2 selected; "even" after "!4").
// calcSelPages therefore hands every element of the expression to the term handler: the call of
// handlePageSelectionToken is reached on every iteration of the loop over the terms (no branch inside the
// loop can skip it), and the loop runs over the whole slice.
func checkEveryTermEvaluated(c *Ctx) {
	p, r := c.P, c.R
	const fid = "pkg/api.calcSelPages"
	fn := p.Func(fid)
	if fn == nil {
		r.Bad("C31.R5", fid, "anchor", "", "UNRESOLVED-ANCHOR")
		return
	}
	n := 0
	for _, l := range naturalLoops(fn) {
		var callBlk *ssa.BasicBlock
		for b := range l.blocks {
			for _, in := range b.Instrs {
				if call, ok := in.(*ssa.Call); ok {
					if f := staticCallee(call); f != nil && f.Name() == "handlePageSelectionToken" {
						callBlk = b
					}
				}
			}
		}
		if callBlk == nil {
			continue
		}
		n++
		// every back edge source must be dominated by the call block: no iteration completes without the call
		skipped := false
		for _, bk := range l.backs {
			if !(callBlk == bk || callBlk.Dominates(bk)) {
				skipped = true
			}
		}
		if skipped {
			r.Bad("C31.R5", fid, "every term is evaluated", p.Pos(lastPos(callBlk)), "an iteration of the loop over the selection's terms can reach the next term without calling the term handler: terms are evaluated left to right against the current set, a skipped (repeated, 'redundant') term changes the result — \"1-3,!2,1-3\" selects page 2, without the third term it does not")
		} else {
			r.OK("C31.R5", fid, "every term is evaluated", p.Pos(lastPos(callBlk)), "the term handler's call dominates every back edge of the loop over the terms", true)
		}
	}
	if n == 0 {
		r.Bad("C31.R5", fid, "every term is evaluated", p.Pos(fn.Pos()), "UNDECIDED: no loop that calls handlePageSelectionToken")
	}
}

// inPlaceDeleteSkips finds the pattern `for i := …; i < len(a); i++ { … a = append(a[:i], a[i+1:]...) … }` in which
// the path through the deletion reaches the back edge with the counter incremented as usual: the element that moved
// into position i is never examined. Returned: the append calls.
func inPlaceDeleteSkips(fn *ssa.Function) []*ssa.Call {
	var out []*ssa.Call
	for _, l := range naturalLoops(fn) {
		for _, in := range l.header.Instrs {
			ph, ok := in.(*ssa.Phi)
			if !ok {
				break
			}
			// +1 counter
			var incs []ssa.Value
			plain := true
			for ei, e := range ph.Edges {
				if !l.blocks[l.header.Preds[ei]] {
					continue
				}
				bo, ok := e.(*ssa.BinOp)
				if ok && bo.Op == token.ADD && bo.X == ssa.Value(ph) {
					if n, ok := c31ConstInt(bo.Y); ok && n == 1 {
						incs = append(incs, e)
						continue
					}
				}
				plain = false
			}
			if len(incs) == 0 || !plain {
				continue // no counter, or some path adjusts it (i--, continue without increment …)
			}
			for b := range l.blocks {
				for _, bi := range b.Instrs {
					call, ok := bi.(*ssa.Call)
					if !ok {
						continue
					}
					bt, ok := call.Call.Value.(*ssa.Builtin)
					if !ok || bt.Name() != "append" || len(call.Call.Args) != 2 {
						continue
					}
					s0, ok0 := call.Call.Args[0].(*ssa.Slice)
					s1, ok1 := call.Call.Args[1].(*ssa.Slice)
					if !ok0 || !ok1 || s0.High != ssa.Value(ph) || s0.Low != nil || s1.High != nil {
						continue
					}
					lo, ok := s1.Low.(*ssa.BinOp)
					if !ok || lo.Op != token.ADD || lo.X != ssa.Value(ph) {
						continue
					}
					if n, ok := c31ConstInt(lo.Y); !ok || n != 1 {
						continue
					}
					// the deletion leaves the loop at once (break/return) on every path?
					leaves := true
					seen := map[*ssa.BasicBlock]bool{b: true}
					st := []*ssa.BasicBlock{b}
					for len(st) > 0 && leaves {
						x := st[len(st)-1]
						st = st[:len(st)-1]
						for _, s := range x.Succs {
							if s == l.header {
								leaves = false
								break
							}
							if l.blocks[s] && !seen[s] {
								seen[s] = true
								st = append(st, s)
							}
						}
					}
					if !leaves {
						out = append(out, call)
					}
				}
			}
		}
	}
	return out
}

func init() {
	extraDebug["inplacedel"] = func(p *Program) {
		for _, fn := range p.Funcs {
			if !isSubject(fn) {
				continue
			}
			for _, c := range inPlaceDeleteSkips(fn) {
				fmt.Printf("%s\t%s\n", FuncID(fn), p.Pos(c.Pos()))
			}
		}
	}
}

// ---------------- C31.R6 / R7 (round 4 seeds C31-E, C31-F) ----------------

// R6 (siblings): every term shape has two evaluators, X for selection sets and XForCollection for collections; an
// expression means the same pages in both. Each comparison of a page number with 1 on its lower side (v < 1) is
// classified by what its true edge does — "drop" (leads to a return without touching the result) or "clamp/continue"
// — and the sequence of classifications must be the same in X and XForCollection.
func lowerBoundTreatments(fn *ssa.Function) []string {
	type item struct {
		pos token.Pos
		s   string
	}
	var items []item
	eachInstr(fn, func(_ *ssa.BasicBlock, _ int, i ssa.Instruction) {
		bo, ok := i.(*ssa.BinOp)
		if !ok {
			return
		}
		op := bo.Op
		x, y := bo.X, bo.Y
		if _, isC := x.(*ssa.Const); isC {
			x, y = y, x
			op = mirrorOp(op)
		}
		k, ok := c31ConstInt(y)
		if !ok {
			return
		}
		// v < 1, v <= 0, and — page numbers come from \d+ groups, so they are never negative — v == 0
		if !((op == token.LSS && k == 1) || (op == token.LEQ && k == 0) || (op == token.EQL && k == 0)) {
			return
		}
		if _, isLen := x.(*ssa.Call); isLen {
			return
		}
		for _, e := range condEdges(bo, true) {
			b := e.From.Succs[e.Succ]
			// follow straight-line jumps
			seen := map[*ssa.BasicBlock]bool{}
			works := func(x *ssa.BasicBlock) bool {
				for _, in := range x.Instrs {
					switch y := in.(type) {
					case *ssa.Call:
						if _, isB := y.Call.Value.(*ssa.Builtin); !isB {
							return true
						}
					case *ssa.MapUpdate, *ssa.Store:
						return true
					}
				}
				return false
			}
			did := works(b)
			for len(b.Succs) == 1 && !seen[b] {
				seen[b] = true
				b = b.Succs[0]
				did = did || works(b)
			}
			cls := "continue"
			if len(b.Instrs) > 0 && !did {
				if _, isRet := b.Instrs[len(b.Instrs)-1].(*ssa.Return); isRet {
					cls = "drop"
				}
			}
			items = append(items, item{bo.Pos(), cls})
		}
	})
	// a clamp spelled with the builtin: max(v, 1)
	eachInstr(fn, func(_ *ssa.BasicBlock, _ int, i ssa.Instruction) {
		call, ok := i.(*ssa.Call)
		if !ok {
			return
		}
		if b, ok := call.Call.Value.(*ssa.Builtin); ok && b.Name() == "max" {
			for _, a := range call.Call.Args {
				if k, ok := c31ConstInt(a); ok && k == 1 {
					items = append(items, item{call.Pos(), "continue"})
				}
			}
		}
	})
	// the comparison is between the SETS of treatments: how a test is spelled and how many there are is style
	set := map[string]bool{}
	for _, it := range items {
		set[it.s] = true
	}
	var out []string
	for k := range set {
		out = append(out, k)
	}
	sort.Strings(out)
	return out
}

func checkSelectionCollectionSiblings(c *Ctx) {
	p, r := c.P, c.R
	n := 0
	for _, fn := range p.Funcs {
		if !isSubject(fn) || !strings.HasSuffix(p.File(fn.Pos()), c31File) || !strings.HasSuffix(fn.Name(), "ForCollection") {
			continue
		}
		sib := p.Func("pkg/api." + strings.TrimSuffix(fn.Name(), "ForCollection"))
		if sib == nil {
			continue
		}
		a, b := lowerBoundTreatments(sib), lowerBoundTreatments(fn)
		if len(a) == 0 && len(b) == 0 {
			continue
		}
		n++
		construct := "lower bound treatment vs " + fn.Name()
		if strings.Join(a, ",") == strings.Join(b, ",") {
			r.OK("C31.R6", FuncID(sib), construct, p.Pos(sib.Pos()), "both evaluators: "+strings.Join(a, ","), true)
		} else {
			r.Bad("C31.R6", FuncID(sib), construct, p.Pos(sib.Pos()), fmt.Sprintf("the selection evaluator treats a page number below 1 as [%s], its collection sibling as [%s]: the same term (0-3, 0-l …) denotes different pages in a selection and in a collection — one of them drops a range the other clamps to page 1", strings.Join(a, ","), strings.Join(b, ",")))
		}
	}
	if n == 0 {
		r.Bad("C31.R6", "pkg/api", "anchor", "", "UNRESOLVED-ANCHOR: no selection/collection evaluator pair with a lower-bound test")
	}
}

// R7: removing a page from a collection examines every element. The tree builds a filtered copy; the classic
// in-place form (append(a[:i], a[i+1:]...) under a counter that is incremented all the same) skips the element
// after each removed one, so "3,3,!3" keeps a 3. Expected count of the pattern: zero, in every function of the file.
func checkCollectionRemovalComplete(c *Ctx) {
	p, r := c.P, c.R
	n := 0
	for _, fn := range p.Funcs {
		if !isSubject(fn) || !strings.HasSuffix(p.File(fn.Pos()), c31File) || len(naturalLoops(fn)) == 0 {
			continue
		}
		n++
		hits := inPlaceDeleteSkips(fn)
		if len(hits) == 0 {
			r.OK("C31.R7", FuncID(fn), "no in-place deletion under a running index", p.Pos(fn.Pos()), fmt.Sprintf("%d loops, none deletes from the slice it indexes while the counter runs on", len(naturalLoops(fn))), fn.Name() == "deletePageFromCollection")
		} else {
			r.Bad("C31.R7", FuncID(fn), "no in-place deletion under a running index", p.Pos(hits[0].Pos()), "an element is deleted from the slice in place (append(a[:i], a[i+1:]...)) and the loop goes on with i+1: the element that moved into position i is never examined, so a page collected twice in a row survives its negated term")
		}
	}
	if p.Func("pkg/api.deletePageFromCollection") == nil {
		r.Bad("C31.R7", "pkg/api.deletePageFromCollection", "anchor", "", "UNRESOLVED-ANCHOR")
	}
	_ = n
}
