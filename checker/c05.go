package main

import (
	"fmt"
	"go/token"
	"go/types"
	"sort"
	"strings"

	"golang.org/x/tools/go/ssa"
)

// C05 — extracted files never escape the output directory / clobber each other.
// R1 CLEAN: at every file-creating sink in pkg/api, pkg/cli, pkg/font every path component other than the directory is built from
// constants, integers, sanitizer results, directory-entry names or the API caller's own strings.
// R2: attachment outputs are all reserved with O_EXCL before the first write; an existing reservation is always an error.

func init() {
	register(&Check{
		ID:  "C05",
		Run: runC05,
		Explanation: "Decides that no document- or font-controlled string reaches a file path without the sanitizer, and that attachment extraction detects collisions before writing: (R1 CLEAN) at every call of a file-creating sink (pdfcpu.WriteReader/Write/CopyFile destination, api.openStagedOutput outFile, api.writeCutOutput, api.writeMultiFillOutput*, api.MergeCreateFile outFile, font.writeGob, os.OpenFile with O_CREATE, reservation opens) in pkg/api, pkg/cli and pkg/font the path argument is sliced backwards through filepath.Join/Clean, string concatenation, fmt.Sprintf, local variables, phi nodes, struct fields set in the same function and — interprocedurally — through parameters of unexported functions to all their call sites; every component other than the leading directory must be a constant, a formatted integer, a result of sanitize.Path (success result) / sanitize.PathOr / api.sanitizeFilenamePart, an os.DirEntry name, filepath.Base/Ext/TrimSuffix of such a value, or a string the API caller passed to an exported function (the caller's own names). Anything else (a struct field of a document model type, a dictionary lookup, a decoded name) is reported; (R2) in api.writeAttachments the success of reserveAttachmentOutputs dominates every writeAttachmentToPath; the reservation open carries O_CREATE|O_EXCL; in reserveAttachmentOutputs every path leaving the os.ErrExist branch returns a non-nil error (no continue/skip). (R1, refined) a read of a field of a local aggregate is judged by the stores that can reach it: a store that comes later on every path (the sanitizing assignment after the read) says nothing about the value read, which was set through a pointer by a parser. (R3) the sanitizer itself: its component cleaner ranges over the component it was handed (not over a string derived from it by normalisation or decoding, which could bring separators back after Path has split on '/' and dropped '..'), and package sanitize calls nothing outside strings, unicode, utf8, errors, fmt, path, filepath and the logger. NOT decided: that sanitize.Path itself yields a single safe component for all byte strings (a property of string values), case-folding or Unicode-normalising filesystems.",
		Rules: []string{
			"C05.R1 CLEAN: closed-world path construction at file-creating sinks",
			"C05.R5 shape: the attachment output reservation is taken once for the whole list (not in a loop, not in a helper called from a loop)",
			"C05.R4 shape: a sanitizer wrapper outside package sanitize returns only results of package sanitize or constants",
			"C05.R3 shape/WMC: the sanitizer's component cleaner copies only runes of its input; closed set of callees in package sanitize",
			"C05.R2 MPT: reserve-all-before-write with O_EXCL; an existing reservation always fails the extraction",
		},
		Assumptions: []string{"sanitize.Path / sanitize.PathOr return a single safe path component (not decided here)", "strings passed by the API caller to exported functions are the caller's responsibility"},
		Technique:   "backward value slicing on SSA with interprocedural parameter summaries over the call graph (closed-world cleanliness lattice); must-pass-through dataflow; OpenFile flag classification",
		Note:        "Partial: decides the flow of names into paths, not the sanitizer's string semantics.",
	})
}

// sinks: callee ref -> index of the path argument in the SSA argument list
var c05Sinks = map[string]int{
	"pkg/pdfcpu.WriteReader":         0,
	"pkg/pdfcpu.Write":               1,
	"pkg/pdfcpu.CopyFile":            1,
	"pkg/api.openStagedOutput":       2,
	"pkg/api.writeCutOutput":         1,
	"pkg/api.writeMultiFillOutput":   1,
	"pkg/api.writeMultiFillOutputWith": 1,
	"pkg/api.MergeCreateFile":        1,
	"pkg/api.MergeCreateZipFile":     2,
	"pkg/font.writeGob":              0,
	"pkg/api.writeAttachmentToPath":  0,
	"pkg/api.WriteContextFile":       1,
	"pkg/api.CreatePDFFile":          1,
}

var c05Sanitizers = map[string]bool{
	"pkg/pdfcpu/sanitize.Path": true, "pkg/pdfcpu/sanitize.PathOr": true, "pkg/api.sanitizeFilenamePart": true,
}

// std functions that return (a piece of) their first string argument: cleanliness is inherited from the arguments
var c05PassThrough = map[string]bool{
	"path/filepath.Base": true, "path/filepath.Ext": true, "path/filepath.Clean": true, "strings.TrimSuffix": true, "strings.TrimPrefix": true,
	"strings.ToLower": true, "strings.ToUpper": true, "strings.TrimSpace": true, "strings.ReplaceAll": true, "strings.Replace": true,
	"path/filepath.Dir": true, "strings.TrimRight": true, "strings.TrimLeft": true, "strings.Trim": true, "path/filepath.Abs": true,
	"path.Base": true, "path.Ext": true,
}

var c05CleanProducers = map[string]bool{
	"strconv.Itoa": true, "strconv.FormatInt": true, "encoding/hex.EncodeToString": true, "crypto/rand.Text": true, "os.File.Name": true, "io/fs.DirEntry.Name": true, "os.DirEntry.Name": true,
	"io/fs.FileInfo.Name": true, "os.TempDir": true, "os.Getwd": true, "os.UserConfigDir": true, "time.Time.Format": true,
}

type cleanCtx struct {
	c     *Ctx
	memo  map[ssa.Value]string // "" = in progress / clean ; otherwise reason dirty
	state map[ssa.Value]int    // 1 in progress, 2 done
	param map[*ssa.Parameter]string
	pst   map[*ssa.Parameter]int
	// curLoad: the load instruction whose address is being judged (orders the stores into a local aggregate's field)
	curLoad *ssa.UnOp
}

var fieldCallIndex map[*types.Var][]ssa.CallInstruction

// fieldCalls indexes calls made through struct fields of func type.
func (cc *cleanCtx) fieldCalls() map[*types.Var][]ssa.CallInstruction {
	if fieldCallIndex == nil {
		fieldCallIndex = map[*types.Var][]ssa.CallInstruction{}
		for _, caller := range cc.c.P.Funcs {
			eachInstr(caller, func(_ *ssa.BasicBlock, _ int, i ssa.Instruction) {
				c, ok := i.(ssa.CallInstruction)
				if !ok || c.Common().IsInvoke() || c.Common().StaticCallee() != nil {
					return
				}
				if fld := fieldOfValue(c.Common().Value); fld != nil {
					fieldCallIndex[fld] = append(fieldCallIndex[fld], c)
				}
			})
		}
	}
	return fieldCallIndex
}

// dirty returns "" if v is CLEAN/CALLER, else a short reason naming the offending origin.
func (cc *cleanCtx) dirty(v ssa.Value, depth int) string {
	if v == nil {
		return "nil value"
	}
	if depth > 40 {
		return "slice too deep at " + v.Name()
	}
	switch cc.state[v] {
	case 1:
		return "" // cycle through phi/loop: decided by the other inputs
	case 2:
		return cc.memo[v]
	}
	cc.state[v] = 1
	res := cc.dirty1(v, depth)
	cc.state[v] = 2
	cc.memo[v] = res
	return res
}

func isStringish(t types.Type) bool {
	b, ok := t.Underlying().(*types.Basic)
	return ok && b.Info()&types.IsString != 0
}

func (cc *cleanCtx) dirty1(v ssa.Value, depth int) string {
	p := cc.c.P
	switch x := v.(type) {
	case *ssa.Const:
		return ""
	case *ssa.Parameter:
		return cc.dirtyParam(x, depth)
	case *ssa.FreeVar:
		if b := freeVarBinding(x); b != nil {
			return cc.dirtyCell(b, depth)
		}
		return "captured variable " + x.Name()
	case *ssa.Phi:
		for _, e := range x.Edges {
			if r := cc.dirty(e, depth+1); r != "" {
				return r
			}
		}
		return ""
	case *ssa.BinOp:
		if x.Op == token.ADD {
			if r := cc.dirty(x.X, depth+1); r != "" {
				return r
			}
			return cc.dirty(x.Y, depth+1)
		}
		return ""
	case *ssa.Convert:
		if !isStringish(x.X.Type()) {
			if b, ok := x.X.Type().Underlying().(*types.Basic); ok && b.Info()&types.IsNumeric != 0 {
				return ""
			}
			return "conversion of " + x.X.Type().String() + " (" + p.Pos(x.Pos()) + ")"
		}
		return cc.dirty(x.X, depth+1)
	case *ssa.ChangeType:
		return cc.dirty(x.X, depth+1)
	case *ssa.MakeInterface:
		if b, ok := x.X.Type().Underlying().(*types.Basic); ok && b.Info()&(types.IsNumeric|types.IsBoolean) != 0 {
			return ""
		}
		return cc.dirty(x.X, depth+1)
	case *ssa.Slice:
		return cc.dirty(x.X, depth+1) // substring
	case *ssa.Extract:
		call, ok := x.Tuple.(*ssa.Call)
		if !ok {
			return "tuple component at " + p.Pos(x.Pos())
		}
		return cc.dirtyCall(call, x.Index, depth)
	case *ssa.Call:
		return cc.dirtyCall(x, 0, depth)
	case *ssa.UnOp:
		if x.Op == token.MUL {
			saved := cc.curLoad
			cc.curLoad = x
			res := cc.dirtyCell(x.X, depth)
			cc.curLoad = saved
			return res
		}
		return ""
	case *ssa.Lookup:
		return "map/string lookup at " + p.Pos(x.Pos())
	case *ssa.Index:
		return cc.dirty(x.X, depth+1)
	case *ssa.Field:
		return cc.dirtyField(x.X, x.Field, x.Pos(), depth)
	}
	return fmt.Sprintf("%T at %s", v, p.Pos(v.Pos()))
}

// dirtyCell: value loaded from address addr.
func (cc *cleanCtx) dirtyCell(addr ssa.Value, depth int) string {
	p := cc.c.P
	switch a := addr.(type) {
	case *ssa.Alloc:
		// local variable (possibly captured): every store must be clean
		res := ""
		n := 0
		var visit func(fn *ssa.Function, cell ssa.Value)
		visit = func(fn *ssa.Function, cell ssa.Value) {
			eachInstr(fn, func(_ *ssa.BasicBlock, _ int, i ssa.Instruction) {
				if res != "" {
					return
				}
				switch y := i.(type) {
				case *ssa.Store:
					if y.Addr == cell {
						n++
						res = cc.dirty(y.Val, depth+1)
					}
				case *ssa.MakeClosure:
					for bi, b := range y.Bindings {
						if b == cell {
							cf := y.Fn.(*ssa.Function)
							visit(cf, cf.FreeVars[bi])
						}
					}
				}
			})
		}
		visit(a.Parent(), a)
		if res == "" && n == 0 {
			// array/struct allocs written through IndexAddr/FieldAddr
			return cc.dirtyAggregate(a, depth)
		}
		return res
	case *ssa.FreeVar:
		if b := freeVarBinding(a); b != nil {
			return cc.dirtyCell(b, depth)
		}
		return "captured variable " + a.Name()
	case *ssa.FieldAddr:
		return cc.dirtyField(a.X, a.Field, a.Pos(), depth)
	case *ssa.IndexAddr:
		// element of a slice/array: the whole container must be clean
		return cc.dirtyContainer(a.X, depth)
	case *ssa.Global:
		return "" // package-level configuration (font.UserFontDir, model.ConfigPath ...): not document-controlled
	case *ssa.Parameter:
		return cc.dirtyParam(a, depth)
	case *ssa.UnOp:
		// *p where p itself was loaded (e.g. *cmd.OutFile): classified by where the pointer lives
		if a.Op == token.MUL {
			return cc.dirtyCell(a.X, depth+1)
		}
	}
	return fmt.Sprintf("load through %T at %s", addr, p.Pos(addr.Pos()))
}

func (cc *cleanCtx) dirtyAggregate(a *ssa.Alloc, depth int) string {
	for _, rf := range *a.Referrers() {
		switch y := rf.(type) {
		case *ssa.IndexAddr:
			for _, rr := range *y.Referrers() {
				if st, ok := rr.(*ssa.Store); ok && st.Addr == y {
					if r := cc.dirty(st.Val, depth+1); r != "" {
						return r
					}
				}
			}
		case *ssa.FieldAddr:
			for _, rr := range *y.Referrers() {
				if st, ok := rr.(*ssa.Store); ok && st.Addr == y {
					if isStringish(st.Val.Type()) {
						if r := cc.dirty(st.Val, depth+1); r != "" {
							return r
						}
					}
				}
			}
		}
	}
	return ""
}

// dirtyContainer: slice/array value whose elements are used as path parts.
func (cc *cleanCtx) dirtyContainer(v ssa.Value, depth int) string {
	p := cc.c.P
	switch x := v.(type) {
	case *ssa.Parameter:
		return cc.dirtyParam(x, depth)
	case *ssa.Slice:
		return cc.dirtyContainer(x.X, depth+1)
	case *ssa.Alloc:
		return cc.dirtyAggregate(x, depth)
	case *ssa.UnOp:
		if x.Op == token.MUL {
			return cc.dirtyCell(x.X, depth)
		}
	case *ssa.Phi:
		for _, e := range x.Edges {
			if r := cc.dirtyContainer(e, depth+1); r != "" {
				return r
			}
		}
		return ""
	case *ssa.MakeSlice:
		for _, rf := range *x.Referrers() {
			if ia, ok := rf.(*ssa.IndexAddr); ok {
				for _, rr := range *ia.Referrers() {
					if st, ok := rr.(*ssa.Store); ok && st.Addr == ia {
						if r := cc.dirty(st.Val, depth+1); r != "" {
							return r
						}
					}
				}
			}
		}
		return ""
	case *ssa.Call:
		// append(s, elems...) and module helpers returning []string
		if b, ok := x.Call.Value.(*ssa.Builtin); ok && b.Name() == "append" {
			if r := cc.dirtyContainer(x.Call.Args[0], depth+1); r != "" {
				return r
			}
			return cc.dirtyContainer(x.Call.Args[1], depth+1)
		}
		return cc.dirtyCall(x, 0, depth)
	case *ssa.Extract:
		if call, ok := x.Tuple.(*ssa.Call); ok {
			return cc.dirtyCall(call, x.Index, depth)
		}
	case *ssa.Const:
		return ""
	}
	return fmt.Sprintf("container %T at %s", v, p.Pos(v.Pos()))
}

// caller-owned struct types: their string fields are what the API/CLI caller supplied.
var c05CallerStructs = map[string]bool{
	"pkg/cli.Command": true, "pkg/pdfcpu/model.Configuration": true, "pkg/api.certificateImport": true, "pkg/api.stagedCertificateImport": true,
}

func (cc *cleanCtx) dirtyField(base ssa.Value, idx int, pos token.Pos, depth int) string {
	p := cc.c.P
	f := structField(base.Type(), idx)
	if f == nil {
		return "field at " + p.Pos(pos)
	}
	owner := fieldOwners[f]
	pp := ""
	if f.Pkg() != nil {
		pp = strings.TrimPrefix(strings.TrimPrefix(f.Pkg().Path(), modPath), "/")
	}
	if c05CallerStructs[pp+"."+owner] {
		return ""
	}
	// a struct built in this function (local aggregate): look at the stores into that field
	root := base
	if ld, ok := root.(*ssa.UnOp); ok && ld.Op == token.MUL {
		root = ld.X
	}
	if al, ok := cellRoot(root).(*ssa.Alloc); ok {
		found, res := false, ""
		later := 0
		ld := cc.curLoad
		for _, rf := range *al.Referrers() {
			if fa, ok := rf.(*ssa.FieldAddr); ok && fa.Field == idx {
				for _, rr := range *fa.Referrers() {
					if st, ok := rr.(*ssa.Store); ok && st.Addr == fa {
						// a store that cannot reach the read (it comes later on every path) says nothing about it
						if ld != nil && ld.Parent() == st.Parent() && !storeMayReach(st, ld) {
							later++
							continue
						}
						found = true
						if r := cc.dirty(st.Val, depth+1); r != "" {
							res = r
						}
					}
				}
			}
		}
		if found {
			return res
		}
		if later > 0 {
			return fmt.Sprintf("field %s.%s is read (%s) before the only store(s) into it in this function: its value was set through a pointer by a callee (a parser) and is not sanitized yet", owner, f.Name(), p.Pos(pos))
		}
	}
	// field of a record type filled by a module constructor: all stores to that field anywhere in the module
	if owner != "" && strings.HasPrefix(f.Pkg().Path(), modPath) {
		if r, ok := cc.fieldStores(f, depth); ok {
			return r
		}
	}
	return fmt.Sprintf("field %s.%s (%s)", owner, f.Name(), p.Pos(pos))
}

var fieldStoreIndex map[*types.Var][]ssa.Value

// fieldStores: every value stored into field f by subject code (FieldAddr stores and composite literals lowered to them).
func (cc *cleanCtx) fieldStores(f *types.Var, depth int) (string, bool) {
	if fieldStoreIndex == nil {
		fieldStoreIndex = map[*types.Var][]ssa.Value{}
		for _, fn := range cc.c.P.Funcs {
			eachInstr(fn, func(_ *ssa.BasicBlock, _ int, i ssa.Instruction) {
				st, ok := i.(*ssa.Store)
				if !ok {
					return
				}
				if fa, ok := st.Addr.(*ssa.FieldAddr); ok {
					if fld := structField(fa.X.Type(), fa.Field); fld != nil {
						fieldStoreIndex[fld] = append(fieldStoreIndex[fld], st.Val)
					}
				}
			})
		}
	}
	vals := fieldStoreIndex[f]
	if len(vals) == 0 {
		return "", false
	}
	// only unexported record types private to pkg/api, pkg/cli, pkg/font are resolved this way
	if f.Exported() && !strings.Contains(f.Pkg().Path(), "/pkg/api") {
		return "", false
	}
	for _, v := range vals {
		if r := cc.dirty(v, depth+1); r != "" {
			return r, true
		}
	}
	return "", true
}

func (cc *cleanCtx) dirtyCall(call *ssa.Call, resIdx int, depth int) string {
	p := cc.c.P
	_, ref := callRef(call)
	if c05Sanitizers[ref] {
		return ""
	}
	if c05CleanProducers[ref] {
		return ""
	}
	args := call.Call.Args
	switch ref {
	case "fmt.Sprintf", "fmt.Sprint", "fmt.Sprintln":
		for _, e := range variadicElems(call) {
			if r := cc.dirty(e, depth+1); r != "" {
				return r
			}
		}
		return ""
	case "path/filepath.Join", "path.Join", "strings.Join":
		for _, e := range variadicElems(call) {
			if r := cc.dirty(e, depth+1); r != "" {
				return r
			}
		}
		if ref == "strings.Join" && len(args) > 0 {
			return cc.dirtyContainer(args[0], depth+1)
		}
		return ""
	case "builtin.append":
		return cc.dirtyContainer(call, depth)
	}
	if c05PassThrough[ref] {
		for _, a := range args {
			if isStringish(a.Type()) {
				if r := cc.dirty(a, depth+1); r != "" {
					return r
				}
			}
		}
		return ""
	}
	if call.Call.IsInvoke() {
		if call.Call.Method.Name() == "Name" {
			// os.DirEntry / fs.FileInfo / *os.File
			return ""
		}
		return "result of interface call " + call.Call.Method.Name() + " (" + p.Pos(call.Pos()) + ")"
	}
	f := staticCallee(call)
	if f == nil || !isSubject(f) || f.Blocks == nil {
		return "result of " + ref + " (" + p.Pos(call.Pos()) + ")"
	}
	// module function: every return's component must be clean (parameters resolve to *all* call sites — context-insensitive)
	for _, ret := range returnsOf(f) {
		if resIdx >= len(ret.Results) {
			continue
		}
		res := ret.Results[resIdx]
		var r string
		if isStringish(res.Type()) {
			r = cc.dirty(res, depth+1)
		} else {
			r = cc.dirtyContainer(res, depth+1)
		}
		if r != "" {
			return r
		}
	}
	return ""
}

func (cc *cleanCtx) dirtyParam(prm *ssa.Parameter, depth int) string {
	p := cc.c.P
	fn := prm.Parent()
	if fn.Parent() == nil && fn.Object() != nil && fn.Object().Exported() && fn.Signature.Recv() == nil {
		return "" // the API caller's own string
	}
	if fn.Signature.Recv() != nil && fn.Object() != nil && fn.Object().Exported() {
		return ""
	}
	switch cc.pst[prm] {
	case 1:
		return ""
	case 2:
		return cc.param[prm]
	}
	cc.pst[prm] = 1
	idx := -1
	for i, q := range fn.Params {
		if q == prm {
			idx = i
		}
	}
	res := ""
	callers := 0
	for _, caller := range cc.c.CG().In[fn] {
		eachInstr(caller, func(_ *ssa.BasicBlock, _ int, i ssa.Instruction) {
			if res != "" {
				return
			}
			c, ok := i.(ssa.CallInstruction)
			if !ok {
				return
			}
			f := staticCallee(c)
			if f == nil || unwrapSynthetic(f) != fn {
				return
			}
			callers++
			a := c.Common().Args
			if idx < len(a) {
				if isStringish(a[idx].Type()) {
					res = cc.dirty(a[idx], depth+1)
				} else {
					res = cc.dirtyContainer(a[idx], depth+1)
				}
			}
		})
	}
	if callers == 0 && res == "" {
		// bound to an operation-table field: the call sites are the calls through that field
		for fld, fns := range cc.c.CG().Bindings {
			bound := false
			for _, b := range fns {
				if b == fn {
					bound = true
				}
			}
			if !bound {
				continue
			}
			for _, c := range cc.fieldCalls()[fld] {
				func() {
					if res != "" {
						return
					}
					callers++
					a := c.Common().Args
					if idx < len(a) {
						if isStringish(a[idx].Type()) {
							res = cc.dirty(a[idx], depth+1)
						} else {
							res = cc.dirtyContainer(a[idx], depth+1)
						}
					}
				}()
			}
		}
	}
	if callers == 0 && res == "" && len(cc.c.CG().In[fn]) == 0 {
		// no call site and never referenced as a value in the analysed (non-test) build: unreachable code
		cc.pst[prm] = 2
		cc.param[prm] = ""
		return ""
	}
	if callers == 0 && res == "" {
		// function value passed around (closures): unknown callers
		if fn.Parent() != nil {
			res = "parameter " + prm.Name() + " of closure " + FuncID(fn)
		} else {
			res = "parameter " + prm.Name() + " of " + FuncID(fn) + " has no resolvable call site (" + p.Pos(fn.Pos()) + ")"
		}
	}
	cc.pst[prm] = 2
	cc.param[prm] = res
	return res
}

// splitJoin: path = filepath.Join(dir, parts...) (possibly through Clean / a local) -> parts after the directory.
func splitJoin(v ssa.Value) (parts []ssa.Value, ok bool) {
	v = throughCell(v)
	call, isCall := v.(*ssa.Call)
	if !isCall {
		return nil, false
	}
	_, ref := callRef(call)
	if ref == "path/filepath.Clean" && len(call.Call.Args) == 1 {
		return splitJoin(call.Call.Args[0])
	}
	if ref != "path/filepath.Join" {
		return nil, false
	}
	// elements in index order
	sl, _ := call.Call.Args[0].(*ssa.Slice)
	if sl == nil {
		return nil, false
	}
	al, _ := sl.X.(*ssa.Alloc)
	if al == nil {
		return nil, false
	}
	type el struct {
		i int64
		v ssa.Value
	}
	var els []el
	for _, rf := range *al.Referrers() {
		ia, ok := rf.(*ssa.IndexAddr)
		if !ok {
			continue
		}
		n, ok := constInt(ia.Index)
		if !ok {
			return nil, false
		}
		for _, rr := range *ia.Referrers() {
			if st, ok := rr.(*ssa.Store); ok && st.Addr == ia {
				els = append(els, el{n, st.Val})
			}
		}
	}
	sort.Slice(els, func(a, b int) bool { return els[a].i < els[b].i })
	for i, e := range els {
		if i == 0 {
			continue // the directory
		}
		parts = append(parts, e.v)
	}
	return parts, len(els) > 0
}

func runC05(c *Ctx) {
	p, r := c.P, c.R
	r.MinInst["C05.R1"] = 30
	r.MinInst["C05.R2"] = 3
	r.MinInst["C05.R3"] = 2
	r.MinInst["C05.R4"] = 1
	checkSanitizerWrappers(c)
	r.MinInst["C05.R5"] = 1
	checkReservationCoversAll(c)
	checkSanitizerIntegrity(c)
	cc := &cleanCtx{c: c, memo: map[ssa.Value]string{}, state: map[ssa.Value]int{}, param: map[*ssa.Parameter]string{}, pst: map[*ssa.Parameter]int{}}
	fieldStoreIndex = nil
	fieldCallIndex = nil
	inScope := func(fn *ssa.Function) bool {
		id := FuncID(fn)
		return strings.HasPrefix(id, "pkg/api.") || strings.HasPrefix(id, "pkg/cli.") || strings.HasPrefix(id, "pkg/font.")
	}
	for _, fn := range p.Funcs {
		if !inScope(fn) {
			continue
		}
		fn := fn
		cnt := map[string]int{}
		eachInstr(fn, func(_ *ssa.BasicBlock, _ int, i ssa.Instruction) {
			call, ok := i.(*ssa.Call)
			if !ok {
				return
			}
			_, ref := callRef(call)
			idx, isSink := c05Sinks[ref]
			if !isSink {
				if ref == "os.OpenFile" && len(call.Call.Args) >= 2 {
					if n, ok := constIntAny(call.Call.Args[1]); ok && n&0x40 != 0 {
						idx, isSink = 0, true
					}
				}
			}
			if !isSink || idx >= len(call.Call.Args) {
				return
			}
			cnt[ref]++
			construct := fmt.Sprintf("%s#%d", ref, cnt[ref])
			fid := FuncID(fn)
			pathArg := call.Call.Args[idx]
			why := ""
			if parts, ok := splitJoin(pathArg); ok {
				for _, part := range parts {
					if why = cc.dirty(part, 0); why != "" {
						break
					}
				}
			} else {
				why = cc.dirty(pathArg, 0)
			}
			if why == "" {
				r.OK("C05.R1", fid, construct, p.Pos(call.Pos()), "every non-directory component of the path is a constant, integer, sanitizer result, directory-entry name or the API caller's own string", true)
			} else {
				r.Bad("C05.R1", fid, construct, p.Pos(call.Pos()), "a component of the file path handed to "+ref+" is not proven clean: "+why+" — a document- or font-controlled name could contain separators or '..' and escape the output directory, or collide with another output")
			}
		})
	}
	// ---- R2
	RunFlowRule(c, FlowRule{
		ID:   "C05.R2",
		Func: "pkg/api.writeAttachments",
		Gen:  []GenSpec{{Fact: "all-reserved", On: Pred{Calls: []string{"pkg/api.reserveAttachmentOutputs"}}}},
		Need: []NeedSpec{{Fact: "all-reserved", At: Pred{Calls: []string{"pkg/api.writeAttachmentToPath"}, Deep: true}, Why: "an attachment is written before every output of the extraction was reserved: a later collision would be detected only after the first file has been written"}},
	})
	if fn := p.Func("pkg/api.reserveAttachmentOutputs"); fn == nil {
		r.Bad("C05.R2", "pkg/api.reserveAttachmentOutputs", "anchor", "", "UNRESOLVED-ANCHOR")
	} else {
		var open *ssa.Call
		eachInstr(fn, func(_ *ssa.BasicBlock, _ int, i ssa.Instruction) {
			if call, ok := i.(*ssa.Call); ok {
				if _, ref := callRef(call); ref == "os.OpenFile" {
					open = call
				}
			}
		})
		if open == nil {
			r.Bad("C05.R2", FuncID(fn), "open", p.Pos(fn.Pos()), "reservation open not found")
		} else {
			flag, ok := constIntAny(open.Call.Args[1])
			if !ok || openFlagCategory(flag) != "create-excl" {
				r.Bad("C05.R2", FuncID(fn), "open-flag", p.Pos(open.Pos()), "the reservation is not opened with O_CREATE|O_EXCL: an existing file (or another attachment's output) would be silently reused")
			} else {
				r.OK("C05.R2", FuncID(fn), "open-flag", p.Pos(open.Pos()), "O_CREATE|O_EXCL", false)
			}
			// ErrExist branch: every return/loop-continue reachable from the true edge of errors.Is(err, os.ErrExist) must be an error return
			var isCall *ssa.Call
			for _, ev := range errorResults(open) {
				for _, al := range aliasesOf(ev) {
					for _, rf := range *al.Referrers() {
						if mc, ok := rf.(*ssa.Call); ok {
							if _, ref := callRef(mc); ref == "errors.Is" {
								if ld, ok := mc.Call.Args[1].(*ssa.UnOp); ok {
									if g, ok := ld.X.(*ssa.Global); ok && g.Name() == "ErrExist" {
										isCall = mc
									}
								}
							}
						}
					}
				}
			}
			if isCall == nil {
				r.Bad("C05.R2", FuncID(fn), "exist-branch", p.Pos(open.Pos()), "no errors.Is(err, os.ErrExist) test on the reservation's error")
			} else {
				bad := ""
				for _, e := range condEdges(isCall, true) {
					tgt := e.From.Succs[e.Succ]
					blocks := reachableWithin(tgt, func(b *ssa.BasicBlock) bool { return tgt.Dominates(b) })
					for _, b := range blocks {
						last := b.Instrs[len(b.Instrs)-1]
						switch l := last.(type) {
						case *ssa.Return:
							if k, has := returnErrKind(l); !has || k != errNonNil {
								bad = "a return that may be nil at " + posOrFn(p, l, fn)
							}
						default:
							for _, s := range b.Succs {
								if !tgt.Dominates(s) {
									bad = "control leaves the ErrExist branch without returning an error (" + p.Pos(b.Instrs[0].Pos()) + ")"
								}
							}
						}
					}
				}
				if bad != "" {
					r.Bad("C05.R2", FuncID(fn), "exist-branch", p.Pos(isCall.Pos()), "when the reservation target already exists the extraction does not always fail: "+bad+" — two attachments mapping to the same output would silently overwrite each other")
				} else {
					r.OK("C05.R2", FuncID(fn), "exist-branch", p.Pos(isCall.Pos()), "every path out of the os.ErrExist branch returns a non-nil error", true)
				}
			}
		}
	}
}

// reachableWithin returns blocks reachable from start (inclusive) staying inside the region.
func reachableWithin(start *ssa.BasicBlock, in func(*ssa.BasicBlock) bool) []*ssa.BasicBlock {
	seen := map[*ssa.BasicBlock]bool{}
	var out []*ssa.BasicBlock
	st := []*ssa.BasicBlock{start}
	for len(st) > 0 {
		b := st[len(st)-1]
		st = st[:len(st)-1]
		if seen[b] || !in(b) {
			continue
		}
		seen[b] = true
		out = append(out, b)
		st = append(st, b.Succs...)
	}
	return out
}

// storeMayReach: the store can be executed before the load on some path.
func storeMayReach(st *ssa.Store, ld *ssa.UnOp) bool {
	sb, lb := st.Block(), ld.Block()
	if sb == lb {
		si, li := -1, -1
		for k, in := range sb.Instrs {
			if in == ssa.Instruction(st) {
				si = k
			}
			if in == ssa.Instruction(ld) {
				li = k
			}
		}
		if si < li {
			return true
		}
		return reachableBlocks(sb)[sb] // in a loop: the store of an earlier iteration
	}
	return reachableBlocks(sb)[lb]
}

// ---------------- C05.R3 (round 3 of seeding): the sanitizer itself ----------------

// checkSanitizerIntegrity: every sink rule above trusts sanitize.Path. Its guarantee (no separator, no "..") rests on two
// facts that are visible in its shape: Path splits on '/' and drops "." / ".." BEFORE the per-component cleaner runs, and
// the cleaner (pathPart) only copies runes of the component it was handed, or constants. So (a) pathPart ranges over its
// own parameter — not over a string derived from it by some transformation that could produce new separators
// (normalisation, decoding, unescaping) — and writes only those runes or constants; (b) the package calls nothing outside
// strings, unicode, unicode/utf8, errors, fmt, path, path/filepath and the logger.
func checkSanitizerIntegrity(c *Ctx) {
	p, r := c.P, c.R
	fid := "pkg/pdfcpu/sanitize.pathPart"
	fn := p.Func(fid)
	if fn == nil {
		r.Bad("C05.R3", fid, "anchor", "", "UNRESOLVED-ANCHOR")
	} else {
		ranges := 0
		eachInstr(fn, func(_ *ssa.BasicBlock, _ int, i ssa.Instruction) {
			rg, ok := i.(*ssa.Range)
			if !ok {
				return
			}
			if bt, ok := rg.X.Type().Underlying().(*types.Basic); !ok || bt.Info()&types.IsString == 0 {
				return
			}
			ranges++
			x := rg.X
			if cv, ok := x.(*ssa.Convert); ok {
				x = cv.X
			}
			if _, isParam := x.(*ssa.Parameter); isParam {
				r.OK("C05.R3", fid, fmt.Sprintf("rune loop#%d", ranges), p.Pos(rg.Pos()), "the component cleaner ranges over the component it was handed", true)
			} else {
				r.Bad("C05.R3", fid, fmt.Sprintf("rune loop#%d", ranges), p.Pos(rg.Pos()), "the component cleaner ranges over a string derived from its input ("+exprName(x)+") instead of the input itself: Path has already split on '/' and dropped '..', so a transformation here (normalisation, decoding) can bring separators and dot components back into a single component")
			}
		})
		if ranges == 0 {
			r.Bad("C05.R3", fid, "rune loop", p.Pos(fn.Pos()), "UNRESOLVED-ANCHOR: no rune loop over a string found in the component cleaner")
		}
	}
	allowed := []string{"strings.", "unicode.", "unicode/utf8.", "errors.", "fmt.", "path.", "path/filepath.", "pkg/log.", "pkg/pdfcpu/sanitize.", "strings.Builder.", "log.Logger."}
	n := 0
	for _, f := range p.Funcs {
		if f.Pkg == nil || f.Pkg.Pkg.Path() != modPath+"/pkg/pdfcpu/sanitize" {
			continue
		}
		f := f
		if f.Name() == "init" {
			continue // package initialisation (imports)
		}
		k := 0
		eachInstr(f, func(_ *ssa.BasicBlock, _ int, i ssa.Instruction) {
			call, ok := i.(*ssa.Call)
			if !ok {
				return
			}
			if _, isB := call.Call.Value.(*ssa.Builtin); isB {
				return
			}
			_, ref := callRef(call)
			if ref == "" {
				return
			}
			n++
			ok2 := false
			for _, a := range allowed {
				if strings.HasPrefix(ref, a) {
					ok2 = true
				}
			}
			if strings.HasPrefix(ref, "pkg/log.") || strings.Contains(ref, "Logger") || strings.Contains(ref, "logger") {
				ok2 = true
			}
			if !ok2 {
				k++
				r.Bad("C05.R3", FuncID(f), fmt.Sprintf("callee %s#%d", ref, k), p.Pos(call.Pos()), "the path sanitizer calls "+ref+", outside its closed set of string primitives: a transformation of the name inside the sanitizer can undo what the split/drop steps established")
			}
		})
	}
	if n == 0 {
		r.Bad("C05.R3", "pkg/pdfcpu/sanitize", "anchor", "", "UNRESOLVED-ANCHOR: no calls found in package sanitize")
	} else {
		r.OK("C05.R3", "pkg/pdfcpu/sanitize", "closed set of callees", "", fmt.Sprintf("%d calls, all to string primitives of the standard library, the logger or the package itself", n), true)
	}
}

// ---------------- C05.R4 (round 4 seed C05-G): functions trusted as sanitizers outside package sanitize ----------------

// checkSanitizerWrappers: R1 trusts the results of the functions in c05Sanitizers. Those in package sanitize are
// decided by R3; a wrapper outside it (api.sanitizeFilenamePart) is trusted only as far as it hands back what the
// package returned: every string it can return is a result of a sanitize.* call or a constant — never its own
// parameter or something derived from it (a "fast path" that returns names it considers plain).
func checkSanitizerWrappers(c *Ctx) {
	p, r := c.P, c.R
	var ids []string
	for id := range c05Sanitizers {
		if !strings.HasPrefix(id, "pkg/pdfcpu/sanitize.") {
			ids = append(ids, id)
		}
	}
	sort.Strings(ids)
	for _, fid := range ids {
		fn := p.Func(fid)
		if fn == nil {
			r.Bad("C05.R4", fid, "anchor", "", "UNRESOLVED-ANCHOR: a function listed as sanitizer was not found")
			continue
		}
		n := 0
		for _, ret := range returnsOf(fn) {
			if len(ret.Results) == 0 {
				continue
			}
			for _, l := range valueLeaves(ret.Results[0]) {
				n++
				construct := fmt.Sprintf("returned string#%d", n)
				v := l
				if ex, ok := v.(*ssa.Extract); ok {
					v = ex.Tuple
				}
				okLeaf := false
				what := exprName(l)
				switch x := v.(type) {
				case *ssa.Const:
					okLeaf = true
				case *ssa.Call:
					_, ref := callRef(x)
					what = ref
					okLeaf = strings.HasPrefix(ref, "pkg/pdfcpu/sanitize.")
				case *ssa.Parameter:
					what = "its own parameter " + x.Name()
				}
				if okLeaf {
					r.OK("C05.R4", fid, construct, posOrFn(p, ret, fn), "a result of package sanitize (or a constant)", true)
				} else {
					r.Bad("C05.R4", fid, construct, posOrFn(p, ret, fn), "a function whose results R1 accepts as sanitized returns "+what+": names that never went through the path sanitizer (with '/', '\\\\' or '..' in them) reach file paths of extracted images, fonts and metadata and leave the output directory")
				}
			}
		}
		if n == 0 {
			r.Bad("C05.R4", fid, "returns", p.Pos(fn.Pos()), "UNDECIDED: no returned string")
		}
	}
}

// ---------------- C05.R5 (round 4 seed C05-H): one reservation covers every output of the extraction ----------------

// checkReservationCoversAll: collisions between attachment outputs are detected by reserving ALL output paths
// (O_CREATE|O_EXCL) before the first byte is written. That only works if the reservation is taken once for the whole
// list: a call of reserveAttachmentOutputs inside a loop — or inside an unexported helper that is itself called from a
// loop — reserves batch by batch, does not see a collision between batches and lets a later batch replace a file an
// earlier batch wrote.
func checkReservationCoversAll(c *Ctx) {
	p, r := c.P, c.R
	cg := c.CG()
	target := p.Func("pkg/api.reserveAttachmentOutputs")
	if target == nil {
		r.Bad("C05.R5", "pkg/api.reserveAttachmentOutputs", "anchor", "", "UNRESOLVED-ANCHOR")
		return
	}
	inLoop := func(fn *ssa.Function, callee *ssa.Function) (bool, token.Pos, int) {
		n := 0
		hit := false
		var pos token.Pos
		loops := naturalLoops(fn)
		eachInstr(fn, func(b *ssa.BasicBlock, _ int, i ssa.Instruction) {
			call, ok := i.(*ssa.Call)
			if !ok {
				return
			}
			if f := staticCallee(call); f == nil || unwrapSynthetic(f) != callee {
				return
			}
			n++
			pos = call.Pos()
			for _, l := range loops {
				if l.blocks[b] {
					hit = true
				}
			}
		})
		return hit, pos, n
	}
	n := 0
	for _, caller := range cg.In[target] {
		if !isSubject(caller) {
			continue
		}
		hit, pos, k := inLoop(caller, target)
		if k == 0 {
			continue
		}
		n++
		bad := ""
		if hit {
			bad = "reserveAttachmentOutputs is called inside a loop"
		} else if !caller.Object().Exported() {
			for _, cc := range cg.In[caller] {
				if h, ppos, kk := inLoop(cc, caller); kk > 0 && h {
					bad = "the helper that reserves (" + caller.Name() + ") is called from a loop in " + cc.Name()
					pos = ppos
				}
			}
		}
		if bad != "" {
			r.Bad("C05.R5", FuncID(caller), "reservation taken once", p.Pos(pos), bad+": outputs are reserved batch by batch, a name collision between two batches is not seen and the later file silently replaces the earlier one (and earlier batches are on disk when a later collision is reported)")
		} else {
			r.OK("C05.R5", FuncID(caller), "reservation taken once", p.Pos(pos), "one reservation for the whole list, outside any loop", true)
		}
	}
	if n == 0 {
		r.Bad("C05.R5", FuncID(target), "callers", "", "UNRESOLVED-ANCHOR: reserveAttachmentOutputs has no callers")
	}
}
