package api

import (
	"bytes"
	"os"
	"path/filepath"
	"testing"

	"github.com/pdfcpu/pdfcpu/pkg/pdfcpu/model"
)

// Demonstration for C35 / C13 (copy into pkg/api/): pdfcpu writes name tree keys as hex strings of the raw bytes, and
// HexLiteralToString unescaped the bytes it read back: the attachment a\b.txt was listed as a<BS>.txt.
func TestC35AttachmentNameWithBackslashReadsBack(t *testing.T) {
	dir := t.TempDir()
	conf := model.NewDefaultConfiguration()
	in, err := os.ReadFile("../testdata/Acroforms2.pdf")
	if err != nil {
		t.Skip(err)
	}
	f := filepath.Join(dir, `a\b.txt`)
	if err := os.WriteFile(f, []byte("x"), 0o644); err != nil {
		t.Fatal(err)
	}
	var out bytes.Buffer
	if err := AddAttachments(bytes.NewReader(in), &out, []string{f}, false, conf); err != nil {
		t.Fatal(err)
	}
	aa, err := Attachments(bytes.NewReader(out.Bytes()), conf)
	if err != nil {
		t.Fatal(err)
	}
	if len(aa) != 1 || aa[0].ID != `a\b.txt` {
		t.Fatalf("listed %q", aa[0].ID)
	}
}
