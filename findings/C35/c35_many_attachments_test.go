package api

import (
	"bytes"
	"fmt"
	"os"
	"path/filepath"
	"testing"

	"github.com/pdfcpu/pdfcpu/pkg/pdfcpu/model"
)

// Demonstration for C35 (copy into pkg/api/; KNOWN FINDING, not repaired): attachments added with names in sorted
// order build a degenerate EmbeddedFiles name tree (a full leaf is split in place, 3 entries per leaf, nothing
// rebalances). From 255 attachments on the tree is deeper than the reader's recursion limit of 100: strict validation
// of pdfcpu's own output fails with "name tree depth 101 exceeds limit 100", relaxed validation drops the tree, and
// listing returns no attachment at all. The same happens at the pinned commit.
func TestC35ManyAttachmentsAreListed(t *testing.T) {
	dir := t.TempDir()
	conf := model.NewDefaultConfiguration()
	in, err := os.ReadFile("../testdata/Acroforms2.pdf")
	if err != nil {
		t.Skip(err)
	}
	for _, n := range []int{200, 255, 300} {
		var files []string
		for i := 0; i < n; i++ {
			f := filepath.Join(dir, fmt.Sprintf("f%04d.txt", i))
			if err := os.WriteFile(f, []byte(fmt.Sprintf("content %d", i)), 0o644); err != nil {
				t.Fatal(err)
			}
			files = append(files, f)
		}
		var out bytes.Buffer
		if err := AddAttachments(bytes.NewReader(in), &out, files, false, conf); err != nil {
			t.Fatalf("n=%d add: %v", n, err)
		}
		aa, err := Attachments(bytes.NewReader(out.Bytes()), conf)
		if err != nil {
			t.Errorf("n=%d list: %v", n, err)
			continue
		}
		if len(aa) != n {
			t.Errorf("%d attachments added, %d listed", n, len(aa))
		}
	}
}
