package api

import (
	"bytes"
	"testing"

	"github.com/pdfcpu/pdfcpu/pkg/pdfcpu/model"
)

// Demonstration for C35 (copy into pkg/api/): document property names are dictionary keys of the Info dictionary.
// The writer escapes them (EncodeName), the parser decodes them — and validate.handleProperties decoded them a second
// time. A name that contains '#' therefore came back as another name ("100#25" -> "100%"), and one in which '#' is not
// followed by two hex digits ("C#") made the document pdfcpu itself had just written fail to read.
func TestC35PropertyNameWithHashReadsBack(t *testing.T) {
	conf := model.NewDefaultConfiguration()
	in := samplePDFForC35(t)
	for _, name := range []string{"100#25", "C#", "plain"} {
		var out bytes.Buffer
		if err := AddProperties(bytes.NewReader(in), &out, map[string]string{name: "v"}, conf); err != nil {
			t.Fatalf("AddProperties(%q): %v", name, err)
		}
		ctx, err := ReadValidateAndOptimize(bytes.NewReader(out.Bytes()), conf)
		if err != nil {
			t.Errorf("property %q: the written document does not read back: %v", name, err)
			continue
		}
		if got, ok := ctx.Properties[name]; !ok || got != "v" {
			t.Errorf("property %q: listing returns %v", name, ctx.Properties)
		}
	}
}

func samplePDFForC35(t *testing.T) []byte {
	t.Helper()
	var b bytes.Buffer
	b.WriteString("%PDF-1.7\n")
	offs := []int{}
	add := func(s string) { offs = append(offs, b.Len()); b.WriteString(s) }
	add("1 0 obj\n<< /Type /Catalog /Pages 2 0 R >>\nendobj\n")
	add("2 0 obj\n<< /Type /Pages /Kids [3 0 R] /Count 1 >>\nendobj\n")
	add("3 0 obj\n<< /Type /Page /Parent 2 0 R /MediaBox [0 0 100 100] >>\nendobj\n")
	x := b.Len()
	b.WriteString("xref\n0 4\n0000000000 65535 f \n")
	for _, o := range offs {
		b.WriteString(pad10(o) + " 00000 n \n")
	}
	b.WriteString("trailer\n<< /Size 4 /Root 1 0 R >>\nstartxref\n" + itoaC35(x) + "\n%%EOF\n")
	return b.Bytes()
}

func itoaC35(n int) string {
	if n == 0 {
		return "0"
	}
	s := ""
	for n > 0 {
		s = string(rune('0'+n%10)) + s
		n /= 10
	}
	return s
}

func pad10(n int) string {
	s := itoaC35(n)
	for len(s) < 10 {
		s = "0" + s
	}
	return s
}
