package api

import (
	"bytes"
	"fmt"
	"os"
	"path/filepath"
	"sort"
	"strings"
	"testing"

	"github.com/pdfcpu/pdfcpu/pkg/pdfcpu/model"
)

// Demonstration for C35 (copy into pkg/api/): attachments are removed one at a time (each removal writes a new
// document). When a removal empties a name-tree leaf and a single kid remains, removeKid merged that kid into its
// parent and deep-deleted the parent's dictionary — which still listed the remaining kid in /Kids, so the surviving
// attachments' file specifications were freed as well: after add a,b,c,d / remove a / remove b the document no longer
// validates ("file specification obj#…: invalid type <nil>").
func TestC35RemovingAttachmentsOneByOneKeepsTheOthers(t *testing.T) {
	dir := t.TempDir()
	conf := model.NewDefaultConfiguration()
	in, err := os.ReadFile("../testdata/Acroforms2.pdf")
	if err != nil {
		t.Skip(err)
	}
	names := []string{"a.txt", "b.txt", "c.txt", "d.txt", "e.txt", "f.txt", "g.txt", "h.txt", "i.txt"}
	var files []string
	for _, n := range names {
		f := filepath.Join(dir, n)
		if err := os.WriteFile(f, []byte("content "+n), 0o644); err != nil {
			t.Fatal(err)
		}
		files = append(files, f)
	}
	orders := [][]int{{0, 1, 2, 3, 4, 5, 6, 7, 8}, {8, 7, 6, 5, 4, 3, 2, 1, 0}, {4, 0, 8, 2, 6, 1, 7, 3, 5}, {1, 0, 3, 2, 5, 4, 7, 6, 8}}
	for _, order := range orders {
		var cur bytes.Buffer
		if err := AddAttachments(bytes.NewReader(in), &cur, files, false, conf); err != nil {
			t.Fatal(err)
		}
		left := map[string]bool{}
		for _, n := range names {
			left[n] = true
		}
		for _, idx := range order {
			id := names[idx]
			var next bytes.Buffer
			if err := RemoveAttachments(bytes.NewReader(cur.Bytes()), &next, []string{id}, conf); err != nil {
				t.Fatalf("order %v: remove %s: %v", order, id, err)
			}
			cur = next
			delete(left, id)
			aa, err := Attachments(bytes.NewReader(cur.Bytes()), conf)
			if err != nil {
				t.Fatalf("order %v: after removing %s the document does not list: %v", order, id, err)
			}
			var got, want []string
			for _, a := range aa {
				got = append(got, a.ID)
			}
			for n := range left {
				want = append(want, n)
			}
			sort.Strings(got)
			sort.Strings(want)
			if strings.Join(got, ",") != strings.Join(want, ",") {
				t.Fatalf("order %v: after removing %s: listed %v, want %v", order, id, got, want)
			}
		}
	}
	_ = fmt.Sprint
}
