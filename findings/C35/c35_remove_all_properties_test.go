package api

import (
	"bytes"
	"testing"

	"github.com/pdfcpu/pdfcpu/pkg/pdfcpu/model"
)

// Demonstration for C35 (copy into pkg/api/ next to c35_property_key_decoded_twice_test.go, which has samplePDFForC35):
// "remove all properties" deleted Info dictionary entries under types.EncodeName(k) while the keys of a dictionary in
// memory are decoded: a property whose name needs an escape ("my key") survived a removal that reported success.
func TestC35RemoveAllPropertiesRemovesEscapedNames(t *testing.T) {
	conf := model.NewDefaultConfiguration()
	var withProps bytes.Buffer
	if err := AddProperties(bytes.NewReader(samplePDFForC35(t)), &withProps, map[string]string{"my key": "v", "plain": "w"}, conf); err != nil {
		t.Fatal(err)
	}
	var out bytes.Buffer
	if err := RemoveProperties(bytes.NewReader(withProps.Bytes()), &out, nil, conf); err != nil {
		t.Fatal(err)
	}
	ctx, err := ReadValidateAndOptimize(bytes.NewReader(out.Bytes()), conf)
	if err != nil {
		t.Fatal(err)
	}
	if len(ctx.Properties) != 0 {
		t.Fatalf("after removing all properties the document still lists %v", ctx.Properties)
	}
}
