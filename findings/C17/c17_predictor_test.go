package filter_test

import (
	"bytes"
	"compress/zlib"
	"io"
	"testing"

	"github.com/pdfcpu/pdfcpu/pkg/filter"
)

// Demonstrations for C17 (copy into pkg/filter/). Both are RECORDED findings, not repaired.

// 1. TIFF predictor (2) with 16 bits per component. Horizontal differencing works on samples: the
// stored row holds sample[i] - sample[i-1] (mod 2^16). The decoder adds BYTES, so it only undoes
// the differencing when every sample is one byte wide.
func TestC17TIFFPredictorWith16BitComponents(t *testing.T) {
	samples := []uint16{0x0102, 0x0304, 0x0001} // one row, 3 columns, 1 colour, 16 bits
	var want, stored []byte
	prev := uint16(0)
	for i, s := range samples {
		want = append(want, byte(s>>8), byte(s))
		d := s
		if i > 0 {
			d = s - prev
		}
		stored = append(stored, byte(d>>8), byte(d))
		prev = s
	}
	var z bytes.Buffer
	w := zlib.NewWriter(&z)
	w.Write(stored)
	w.Close()

	f, err := filter.NewFilter(filter.Flate, map[string]int{"Predictor": 2, "Columns": 3, "Colors": 1, "BitsPerComponent": 16})
	if err != nil {
		t.Fatal(err)
	}
	r, err := f.Decode(&z)
	if err != nil {
		t.Fatalf("decode: %v", err)
	}
	got, _ := io.ReadAll(r)
	if !bytes.Equal(got, want) {
		t.Errorf("TIFF predictor, 16 bit: decoded % x, TIFF horizontal differencing gives % x", got, want)
	}
}

// 2. LZWDecode with a PNG predictor. ISO 32000-1 table 8 gives LZWDecode the same Predictor,
// Colors, BitsPerComponent and Columns parameters as FlateDecode. pdfcpu rejects every Predictor > 1.
func TestC17LZWWithPNGPredictor(t *testing.T) {
	rows := [][]byte{[]byte("abcd"), []byte("efgh")}
	var pre, want []byte
	for _, row := range rows {
		pre = append(pre, 0) // PNG filter type None
		pre = append(pre, row...)
		want = append(want, row...)
	}
	plain, err := filter.NewFilter(filter.LZW, nil)
	if err != nil {
		t.Fatal(err)
	}
	enc, err := plain.Encode(bytes.NewReader(pre))
	if err != nil {
		t.Fatal(err)
	}
	f, err := filter.NewFilter(filter.LZW, map[string]int{"Predictor": 12, "Columns": 4})
	if err != nil {
		t.Fatal(err)
	}
	r, err := f.Decode(enc)
	if err != nil {
		t.Fatalf("LZW stream with /Predictor 12 (allowed by the standard) is not decoded: %v", err)
	}
	got, _ := io.ReadAll(r)
	if !bytes.Equal(got, want) {
		t.Errorf("decoded %q, want %q", got, want)
	}
}
