package filter_test

import (
	"bytes"
	"io"
	"testing"

	"github.com/pdfcpu/pdfcpu/pkg/filter"
)

// Demonstration for C15 (copy into pkg/filter/): Flate with predictor decode parameters.
// flate.Encode ignored the parameters (a TODO said so) while flate.Decode applied them, so
// Decode(Encode(x)) != x — or failed with "unexpected PNG predictor" — for every stream whose
// /DecodeParms name a predictor. A stream object with such parameters that pdfcpu decodes,
// modifies and re-encodes was therefore written corrupt.
func TestC15FlatePredictorRoundTrip(t *testing.T) {
	data := []byte("0123456789abcdefghijklmnopqrstuvwxyzABCD")
	for _, parms := range []map[string]int{
		{"Predictor": 12, "Columns": 4},
		{"Predictor": 15, "Columns": 8},
		{"Predictor": 10, "Columns": 5, "Colors": 2},
		{"Predictor": 2, "Columns": 4},
		{"Predictor": 2, "Columns": 4, "Colors": 2},
	} {
		f, err := filter.NewFilter(filter.Flate, parms)
		if err != nil {
			t.Fatal(err)
		}
		enc, err := f.Encode(bytes.NewReader(data))
		if err != nil {
			t.Errorf("%v: encode: %v", parms, err)
			continue
		}
		dec, err := f.Decode(enc)
		if err != nil {
			t.Errorf("%v: decoding what Encode wrote fails: %v", parms, err)
			continue
		}
		out, _ := io.ReadAll(dec)
		if !bytes.Equal(out, data) {
			t.Errorf("%v: Decode(Encode(x)) = %q, want %q", parms, out, data)
		}
	}
}
