package api

import (
	"bytes"
	"fmt"
	"strconv"
	"testing"

	"github.com/pdfcpu/pdfcpu/pkg/pdfcpu/model"
)

// Demonstration for C32 (copy into pkg/api/): the pages a trim keeps must come out as they were. addPage — used by
// trim, collect, remove, split and extract — made the inherited Resources, MediaBox and Rotate explicit on the migrated
// page, but (a) only for Rotate%360 > 0, so an inherited /Rotate -90 was dropped (the page came out unrotated), and
// (b) not the inherited /CropBox at all.
func TestC32TrimKeepsInheritedRotationAndCropBox(t *testing.T) {
	var b bytes.Buffer
	b.WriteString("%PDF-1.7\n")
	var offs []int
	add := func(s string) { offs = append(offs, b.Len()); b.WriteString(s) }
	content := "0 0 m 10 10 l S"
	add("1 0 obj\n<< /Type /Catalog /Pages 2 0 R >>\nendobj\n")
	add("2 0 obj\n<< /Type /Pages /Kids [3 0 R 5 0 R] /Count 2 /MediaBox [0 0 200 300] /CropBox [10 10 150 250] /Rotate -90 /Resources << >> >>\nendobj\n")
	add("3 0 obj\n<< /Type /Page /Parent 2 0 R /Contents 4 0 R >>\nendobj\n")
	add("4 0 obj\n<< /Length " + strconv.Itoa(len(content)) + " >>\nstream\n" + content + "\nendstream\nendobj\n")
	add("5 0 obj\n<< /Type /Page /Parent 2 0 R /Contents 4 0 R >>\nendobj\n")
	x := b.Len()
	b.WriteString("xref\n0 6\n0000000000 65535 f \n")
	for _, o := range offs {
		fmt.Fprintf(&b, "%010d 00000 n \n", o)
	}
	b.WriteString("trailer\n<< /Size 6 /Root 1 0 R >>\nstartxref\n" + strconv.Itoa(x) + "\n%%EOF\n")

	conf := model.NewDefaultConfiguration()
	var out bytes.Buffer
	if err := Trim(bytes.NewReader(b.Bytes()), &out, []string{"1"}, conf); err != nil {
		t.Fatalf("Trim: %v", err)
	}
	ctx, err := ReadValidateAndOptimize(bytes.NewReader(out.Bytes()), conf)
	if err != nil {
		t.Fatalf("re-read: %v", err)
	}
	_, _, inh, err := ctx.PageDict(1, false)
	if err != nil {
		t.Fatal(err)
	}
	if r := ((inh.Rotate % 360) + 360) % 360; r != 270 {
		t.Errorf("the kept page had an effective rotation of -90 (270), after trim it is %d", inh.Rotate)
	}
	if inh.CropBox == nil || inh.CropBox.Width() != 140 || inh.CropBox.Height() != 240 {
		t.Errorf("the kept page had the crop box [10 10 150 250], after trim it is %v", inh.CropBox)
	}
}
