package types

import (
	"testing"
	"time"
)

// Demonstrations for C14 (copy into pkg/pdfcpu/types/).

// A negative UTC offset with non-zero minutes: the parser negated the hours only, so
// D:…-03'30' was read as -02:30 and D:…-00'30' as +00:30 — another instant, another offset.
func TestC14NegativeOffsetWithMinutesReadsBackToTheSameInstant(t *testing.T) {
	for _, off := range []int{-(3*3600 + 30*60), -30 * 60, -(9*3600 + 30*60), 5*3600 + 45*60, -5 * 3600} {
		want := time.Date(2020, 3, 4, 5, 6, 7, 0, time.FixedZone("", off))
		s := DateString(want)
		got, ok := DateTime(s, false)
		if !ok {
			t.Errorf("%s: rejected by strict parsing", s)
			continue
		}
		_, gotOff := got.Zone()
		if !got.Equal(want) || gotOff != off {
			t.Errorf("%s: read back as %s (offset %d s), want %s (offset %d s)", s, got, gotOff, want, off)
		}
	}
}

// A year below 1000: the writer used %d for the year, so the date string had fewer than the four
// digits ISO 32000 requires and strict parsing rejected (or misread) what pdfcpu had written.
func TestC14YearsBelow1000AreWrittenWithFourDigits(t *testing.T) {
	for _, y := range []int{0, 5, 99, 999, 1000, 9999} {
		want := time.Date(y, 3, 4, 5, 6, 7, 0, time.UTC)
		s := DateString(want)
		got, ok := DateTime(s, false)
		if !ok || !got.Equal(want) {
			t.Errorf("year %d: wrote %q, strict parsing gives ok=%v %s", y, s, ok, got)
		}
	}
}
