package pdfcpu

// Demonstration for the C10 finding "array parsing does not poll the context"
// (copy into pkg/pdfcpu/; go test -vet=off -count=1 -run TestC10BigArrayCancel ./pkg/pdfcpu/).
// A PDF with one very large flat array is read; the context is cancelled synchronously (through the parse logger
// seam, called once per parsed array element) at element 1000. A cancellable read stops within a few elements;
// the pinned tree parses all remaining ~199000 elements first.

import (
	"bytes"
	"context"
	"errors"
	"fmt"
	"strings"
	"testing"
	"time"

	"github.com/pdfcpu/pdfcpu/pkg/log"
)

type c10aLogger struct {
	cancelAt  int
	cancel    context.CancelFunc
	n, after  int
	cancelled bool
	at        time.Time
}

func (l *c10aLogger) Printf(format string, args ...interface{}) {
	if !strings.HasPrefix(format, "ParseArray: new array obj") {
		return
	}
	l.n++
	if l.cancelled {
		l.after++
		return
	}
	if l.cancel != nil && l.n == l.cancelAt {
		l.cancel()
		l.cancelled = true
		l.at = time.Now()
	}
}
func (l *c10aLogger) Println(args ...interface{})               {}
func (l *c10aLogger) Fatalf(format string, args ...interface{}) {}
func (l *c10aLogger) Fatalln(args ...interface{})               {}

func c10aBigArrayPDF(n int) []byte {
	var b bytes.Buffer
	off := make([]int, 4)
	b.WriteString("%PDF-1.7\n")
	off[1] = b.Len()
	b.WriteString("1 0 obj\n<</Type/Catalog/Pages 2 0 R/XBig 3 0 R>>\nendobj\n")
	off[2] = b.Len()
	b.WriteString("2 0 obj\n<</Type/Pages/Kids[]/Count 0>>\nendobj\n")
	off[3] = b.Len()
	b.WriteString("3 0 obj\n[")
	for i := 0; i < n; i++ {
		fmt.Fprintf(&b, "%d\n", i)
	}
	b.WriteString("]\nendobj\n")
	for i := 0; i < 128; i++ {
		b.WriteString("% " + strings.Repeat("-", 77) + "\n")
	}
	x := b.Len()
	b.WriteString("xref\n0 4\n0000000000 65535 f \n")
	for i := 1; i <= 3; i++ {
		fmt.Fprintf(&b, "%010d 00000 n \n", off[i])
	}
	fmt.Fprintf(&b, "trailer\n<</Size 4/Root 1 0 R>>\nstartxref\n%d\n%%%%EOF\n", x)
	return b.Bytes()
}

func TestC10BigArrayCancel(t *testing.T) {
	const n, cancelAt, maxAfter = 200000, 1000, 16
	data := c10aBigArrayPDF(n)
	defer log.SetParseLogger(nil)
	c, cancel := context.WithCancel(context.Background())
	defer cancel()
	l := &c10aLogger{cancelAt: cancelAt, cancel: cancel}
	log.SetParseLogger(l)
	doc, err := ReadWithContext(c, bytes.NewReader(data), nil)
	ret := time.Now()
	log.SetParseLogger(nil)
	if !l.cancelled {
		t.Fatalf("never cancelled (err=%v, elements=%d)", err, l.n)
	}
	t.Logf("cancelled at element %d: reader parsed %d more elements and returned %v after cancel() with err=%v", cancelAt, l.after, ret.Sub(l.at), err)
	if err == nil || doc != nil || !errors.Is(err, c.Err()) {
		t.Errorf("cancelled read returned doc=%v err=%v", doc != nil, err)
	}
	if l.after > maxAfter {
		t.Errorf("reader kept parsing after cancel(): %d more array elements, want <= %d", l.after, maxAfter)
	}
}
