// API-level reproducer: paths that do NOT validate before walking the page tree.
// usage: apirepro haswm|optimize file.pdf
package main

import (
	"fmt"
	"os"

	"github.com/pdfcpu/pdfcpu/pkg/api"
	"github.com/pdfcpu/pdfcpu/pkg/pdfcpu/model"
)

func main() {
	switch os.Args[1] {
	case "haswm":
		ok, err := api.HasWatermarksFile(os.Args[2], nil)
		fmt.Println(ok, err)
	case "optimize":
		f, err := os.Open(os.Args[2])
		if err != nil {
			panic(err)
		}
		ctx, err := api.ReadContext(f, model.NewDefaultConfiguration()) // no validation
		if err != nil {
			fmt.Println("read:", err)
			return
		}
		fmt.Println(api.OptimizeContext(ctx))
	}
}
