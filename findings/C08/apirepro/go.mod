module apirepro

go 1.25.0

require github.com/pdfcpu/pdfcpu v0.0.0

require (
	github.com/clipperhouse/uax29/v2 v2.7.0 // indirect
	github.com/hhrutter/tiff v1.0.6 // indirect
	github.com/mattn/go-runewidth v0.0.27 // indirect
	go.yaml.in/yaml/v3 v3.0.5 // indirect
	golang.org/x/crypto v0.54.0 // indirect
	golang.org/x/image v0.44.0 // indirect
	golang.org/x/text v0.40.0 // indirect
)

replace github.com/pdfcpu/pdfcpu => /tmp/wt/triage
