import sys
sys.path.insert(0,'/verif/findings/C08')
from gen_ac import base, build, stream
def case_devicen_process():
    o = base("/ColorSpace << /CS0 5 0 R >>")
    o[5] = "[ /DeviceN [/Cyan] /DeviceCMYK 6 0 R << /Subtype /NChannel /Process << /ColorSpace 5 0 R /Components [/Cyan] >> >> ]"
    o[6] = stream("/FunctionType 4 /Domain [0 1] /Range [0 1 0 1 0 1 0 1]", b"{0 0 0}")
    return o
def case_image_alternates():
    o = base("/XObject << /Im0 5 0 R >>")
    o[5] = stream("/Type /XObject /Subtype /Image /Width 1 /Height 1 /ColorSpace /DeviceGray /BitsPerComponent 8 /Alternates [ << /Image 5 0 R >> ]")
    return o
def case_image_alternates2():
    o = base("/XObject << /Im0 5 0 R >>")
    o[5] = stream("/Type /XObject /Subtype /Image /Width 1 /Height 1 /ColorSpace /DeviceGray /BitsPerComponent 8 /Alternates [ 5 0 R ]")
    return o
for k,v in list(globals().items()):
    if k.startswith('case_'):
        open(k[5:]+'.pdf','wb').write(build(v()))
