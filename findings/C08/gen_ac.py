#!/usr/bin/env python3
# Generates minimal PDFs (classic xref table) containing reference cycles.
# usage: gen.py <case> <out.pdf>     case in: indexed, mask, usecmap, halftone, target, rendition, mediaclip
import sys


def stream(dict_body: str, data: bytes = b"\x00") -> bytes:
    return (b"<< " + dict_body.encode() + b" /Length %d >>\nstream\n" % len(data)) + data + b"\nendstream"


def build(objs: dict) -> bytes:
    out = bytearray(b"%PDF-1.7\n%\xe2\xe3\xcf\xd3\n")
    n = max(objs) + 1
    offs = {}
    for nr in sorted(objs):
        offs[nr] = len(out)
        body = objs[nr]
        if isinstance(body, str):
            body = body.encode()
        out += b"%d 0 obj\n" % nr + body + b"\nendobj\n"
    xref = len(out)
    out += b"xref\n0 %d\n" % n
    out += b"0000000000 65535 f \n"
    for nr in range(1, n):
        if nr in offs:
            out += b"%010d 00000 n \n" % offs[nr]
        else:
            out += b"0000000000 65535 f \n"
    out += b"trailer\n<< /Size %d /Root 1 0 R >>\nstartxref\n%d\n%%%%EOF\n" % (n, xref)
    return bytes(out)


def base(resources: str = "", catalog_extra: str = "", page_extra: str = ""):
    return {
        1: "<< /Type /Catalog /Pages 2 0 R %s >>" % catalog_extra,
        2: "<< /Type /Pages /Kids [3 0 R] /Count 1 >>",
        3: "<< /Type /Page /Parent 2 0 R /MediaBox [0 0 100 100] /Contents 4 0 R /Resources << %s >> %s >>"
        % (resources, page_extra),
        4: stream("", b" "),
    }


def case_indexed():
    # 5 0 obj is an Indexed colour space whose base colour space is 5 0 R itself.
    o = base("/ColorSpace << /CS0 5 0 R >>")
    o[5] = "[ /Indexed 5 0 R 0 <000000> ]"
    return o


def case_mask():
    # image XObject 5 whose /Mask (explicit mask image) is 5 0 R itself.
    o = base("/XObject << /Im0 5 0 R >>")
    o[5] = stream("/Type /XObject /Subtype /Image /Width 1 /Height 1 /ColorSpace /DeviceGray "
                  "/BitsPerComponent 8 /Mask 5 0 R")
    return o


def case_usecmap():
    # Type0 font 5 with /Encoding 6 0 R (CMap stream) whose /UseCMap is 6 0 R itself.
    o = base("/Font << /F0 5 0 R >>")
    o[5] = "<< /Type /Font /Subtype /Type0 /BaseFont /AAAAAA+X /Encoding 6 0 R /DescendantFonts [7 0 R] >>"
    o[6] = stream("/Type /CMap /CMapName /X /CIDSystemInfo << /Registry (Adobe) /Ordering (Identity) "
                  "/Supplement 0 >> /UseCMap 6 0 R")
    o[7] = ("<< /Type /Font /Subtype /CIDFontType2 /BaseFont /AAAAAA+X /CIDSystemInfo << /Registry (Adobe) "
            "/Ordering (Identity) /Supplement 0 >> /FontDescriptor 8 0 R >>")
    o[8] = ("<< /Type /FontDescriptor /FontName /AAAAAA+X /Flags 4 /FontBBox [0 0 1 1] /ItalicAngle 0 "
            "/Ascent 1 /Descent 0 /CapHeight 1 /StemV 1 >>")
    return o


def case_halftone():
    # ExtGState /HT 6 0 R ; 6 = type 5 halftone whose /Default is 6 0 R itself.
    o = base("/ExtGState << /GS0 5 0 R >>")
    o[5] = "<< /Type /ExtGState /HT 6 0 R >>"
    o[6] = "<< /Type /Halftone /HalftoneType 5 /Default 6 0 R >>"
    return o


def case_target():
    # GoToE OpenAction whose target dict /T 6 0 R has /T 6 0 R itself.
    o = base(catalog_extra="/OpenAction 5 0 R")
    o[5] = "<< /Type /Action /S /GoToE /D [0 /Fit] /T 6 0 R >>"
    o[6] = "<< /R /C /N (a) /T 6 0 R >>"
    return o


def case_rendition():
    # Rendition OpenAction; selector rendition 6 lists itself in /R.
    o = base(catalog_extra="/OpenAction 5 0 R")
    o[5] = "<< /Type /Action /S /Rendition /JS (x) /R 6 0 R >>"
    o[6] = "<< /Type /Rendition /S /SR /R [6 0 R] >>"
    return o


def case_mediaclip():
    # media rendition 6 -> /C 7 0 R media clip section whose /D is 7 0 R itself.
    o = base(catalog_extra="/OpenAction 5 0 R")
    o[5] = "<< /Type /Action /S /Rendition /JS (x) /R 6 0 R >>"
    o[6] = "<< /Type /Rendition /S /MR /C 7 0 R >>"
    o[7] = "<< /Type /MediaClip /S /MCS /D 7 0 R >>"
    return o


if __name__ == "__main__":
    case, out = sys.argv[1], sys.argv[2]
    with open(out, "wb") as f:
        f.write(build(globals()["case_" + case]()))
