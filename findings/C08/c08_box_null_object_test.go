package api

import (
	"bytes"
	"fmt"
	"strconv"
	"testing"

	"github.com/pdfcpu/pdfcpu/pkg/pdfcpu/model"
)

// Demonstration for C08 (copy into pkg/api/): a page whose /CropBox (or /MediaBox) is an indirect
// reference to the null object. Validation treats the null as "absent", but the page-attribute code
// dereferenced it to an empty array and model.rect indexed a[0]: `index out of range [0] with length 0`
// — a runtime panic that fault.Catch re-raises — instead of an error.
func TestC08BoxReferencingNullObjectIsAnErrorNotAPanic(t *testing.T) {
	var b bytes.Buffer
	b.WriteString("%PDF-1.7\n")
	var offs []int
	add := func(s string) { offs = append(offs, b.Len()); b.WriteString(s) }
	add("1 0 obj\n<< /Type /Catalog /Pages 2 0 R >>\nendobj\n")
	add("2 0 obj\n<< /Type /Pages /Kids [3 0 R] /Count 1 >>\nendobj\n")
	add("3 0 obj\n<< /Type /Page /Parent 2 0 R /MediaBox [0 0 10 10] /CropBox 4 0 R >>\nendobj\n")
	add("4 0 obj\nnull\nendobj\n")
	x := b.Len()
	b.WriteString("xref\n0 5\n0000000000 65535 f \n")
	for _, o := range offs {
		fmt.Fprintf(&b, "%010d 00000 n \n", o)
	}
	b.WriteString("trailer\n<< /Size 5 /Root 1 0 R >>\nstartxref\n" + strconv.Itoa(x) + "\n%%EOF\n")

	defer func() {
		if r := recover(); r != nil {
			t.Fatalf("ReadValidateAndOptimize panicked: %v", r)
		}
	}()
	_, err := ReadValidateAndOptimize(bytes.NewReader(b.Bytes()), model.NewDefaultConfiguration())
	t.Logf("returned: %v", err)
}
