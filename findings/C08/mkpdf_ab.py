#!/usr/bin/env python3
"""Generate minimal PDFs (classic xref table) containing reference cycles.
Usage: python3 mkpdf.py   -> writes all reproducers into /tmp/triage-ab/
"""
import os

OUT = "/tmp/triage-ab"


def stream(dict_body: str, data: bytes = b"") -> bytes:
    return (b"<< " + dict_body.encode() + b" /Length %d >>\nstream\n" % len(data)) + data + b"\nendstream"


def build(name, objs, version="1.7"):
    """objs: dict objNr -> bytes/str body. Object 1 must be the catalog."""
    out = bytearray(b"%%PDF-%s\n%%\xe2\xe3\xcf\xd3\n" % version.encode())
    n = max(objs) + 1
    offs = {}
    for nr in sorted(objs):
        body = objs[nr]
        if isinstance(body, str):
            body = body.encode()
        offs[nr] = len(out)
        out += b"%d 0 obj\n" % nr + body + b"\nendobj\n"
    xref = len(out)
    out += b"xref\n0 %d\n" % n
    out += b"0000000000 65535 f \n"
    for nr in range(1, n):
        if nr in offs:
            out += b"%010d 00000 n \n" % offs[nr]
        else:
            out += b"0000000000 65535 f \n"
    out += b"trailer\n<< /Size %d /Root 1 0 R >>\nstartxref\n%d\n%%%%EOF\n" % (n, xref)
    path = os.path.join(OUT, name)
    with open(path, "wb") as f:
        f.write(out)
    print("wrote", path)


BASE = {
    1: "<< /Type /Catalog /Pages 2 0 R >>",
    2: "<< /Type /Pages /Kids [3 0 R] /Count 1 >>",
}
CONTENT = stream("", b"q Q")


def page(extra):
    return "<< /Type /Page /Parent 2 0 R /MediaBox [0 0 200 200] /Contents 9 0 R %s >>" % extra


# 1. stitching function whose Functions array contains itself
o = dict(BASE)
o[3] = page("/Resources 4 0 R")
o[4] = "<< /Shading << /Sh0 5 0 R >> >>"
o[5] = "<< /ShadingType 2 /ColorSpace /DeviceGray /Coords [0 0 1 1] /Function 6 0 R >>"
o[6] = "<< /FunctionType 3 /Domain [0 1] /Functions [6 0 R] /Bounds [] /Encode [0 1] >>"
o[9] = CONTENT
build("func_cycle.pdf", o)

# 2a. Resources -> Properties -> properties dict -> Resources (same resource dict)
o = dict(BASE)
o[3] = page("/Resources 4 0 R")
o[4] = "<< /Properties << /P1 5 0 R >> >>"
o[5] = "<< /Resources 4 0 R >>"
o[9] = CONTENT
build("props_cycle.pdf", o)

# 2b. tiling pattern whose Resources list the pattern itself
o = dict(BASE)
o[3] = page("/Resources << /Pattern << /P0 5 0 R >> >>")
o[5] = stream("/Type /Pattern /PatternType 1 /PaintType 1 /TilingType 1 /BBox [0 0 10 10] "
              "/XStep 10 /YStep 10 /Resources << /Pattern << /P0 5 0 R >> >>", b"0 0 5 5 re f")
o[9] = CONTENT
build("tiling_cycle.pdf", o)

# 2c. direct (non indirect) Type3 font dict whose Resources refer back to the enclosing resource dict
o = dict(BASE)
o[3] = page("/Resources 4 0 R")
o[4] = ("<< /Font << /F1 << /Type /Font /Subtype /Type3 /FontBBox [0 0 10 10] /FontMatrix [0.001 0 0 0.001 0 0] "
        "/CharProcs << /a 6 0 R >> /Encoding << /Type /Encoding /Differences [97 /a] >> "
        "/FirstChar 97 /LastChar 97 /Widths [10] /Resources 4 0 R >> >> >>")
o[6] = stream("", b"10 0 d0")
o[9] = CONTENT
build("type3_direct_cycle.pdf", o)

# 3a. Text annotation with IRT (in reply to) pointing at itself
o = dict(BASE)
o[3] = page("/Annots [5 0 R]")
o[5] = "<< /Type /Annot /Subtype /Text /Rect [10 10 30 30] /Contents (x) /IRT 5 0 R >>"
o[9] = CONTENT
build("irt_cycle.pdf", o)

# 3b. Link annotation -> A (GoTo3DView action) -> TA -> same annotation
o = dict(BASE)
o[3] = page("/Annots [5 0 R]")
o[5] = "<< /Type /Annot /Subtype /Link /Rect [10 10 30 30] /A 6 0 R >>"
o[6] = "<< /Type /Action /S /GoTo3DView /TA 5 0 R /V 0 >>"
o[9] = CONTENT
build("goto3dview_cycle.pdf", o)

# 4. optimize: duplicate font whose object graph contains a cycle (traverse / traverseObjectGraphAndMarkDuplicates)
o = dict(BASE)
o[3] = page("/Resources << /Font << /F1 5 0 R /F2 6 0 R >> >>")
o[5] = "<< /Type /Font /Subtype /Type1 /BaseFont /Helvetica /Encoding /WinAnsiEncoding /X 7 0 R >>"
o[6] = "<< /Type /Font /Subtype /Type1 /BaseFont /Helvetica /Encoding /WinAnsiEncoding /X 7 0 R >>"
o[7] = "<< /Self 7 0 R >>"
o[9] = CONTENT
build("dupfont_cycle.pdf", o)

# 5. optimize: EqualObjects with two infinite structures whose indirect refs never line up
#    side 1: F1./X = 7 0 R ; 7 = [ << /K 7 0 R >> ]      (ref, direct, ref, direct ...)
#    side 2: F2./X = [ 8 0 R ] ; 8 = << /K [ 8 0 R ] >>   (direct, ref, direct, ref ...)
o = dict(BASE)
o[3] = page("/Resources << /Font << /F1 5 0 R /F2 6 0 R >> >>")
o[5] = "<< /Type /Font /Subtype /Type1 /BaseFont /Helvetica /Encoding /WinAnsiEncoding /X 7 0 R >>"
o[6] = "<< /Type /Font /Subtype /Type1 /BaseFont /Helvetica /Encoding /WinAnsiEncoding /X [8 0 R] >>"
o[7] = "[ << /K 7 0 R >> ]"
o[8] = "<< /K [8 0 R] >>"
o[9] = CONTENT
build("equal_misaligned_cycle.pdf", o)
