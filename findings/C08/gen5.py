import sys
sys.path.insert(0,'/verif/findings/C08')
from gen_ac import base, build, stream
def outl(variant):
    o = base("", "/Outlines 5 0 R")
    o[5] = "<< /Type /Outlines /First 6 0 R /Last 7 0 R /Count 2 >>"
    if variant == 'last_next_first':
        o[6] = "<< /Title (a) /Parent 5 0 R /Next 7 0 R /Dest [3 0 R /Fit] >>"
        o[7] = "<< /Title (b) /Parent 5 0 R /Prev 6 0 R /Next 6 0 R /Dest [3 0 R /Fit] >>"
    if variant == 'self_next':
        o[6] = "<< /Title (a) /Parent 5 0 R /Next 6 0 R /Dest [3 0 R /Fit] >>"
        o[7] = "<< /Title (b) /Parent 5 0 R /Prev 6 0 R /Dest [3 0 R /Fit] >>"
    if variant == 'prev_cycle':
        o[6] = "<< /Title (a) /Parent 5 0 R /Next 7 0 R /Prev 7 0 R /Dest [3 0 R /Fit] >>"
        o[7] = "<< /Title (b) /Parent 5 0 R /Prev 6 0 R /Dest [3 0 R /Fit] >>"
    if variant == 'child_cycle':
        o[6] = "<< /Title (a) /Parent 5 0 R /Next 7 0 R /First 8 0 R /Last 9 0 R /Count 2 /Dest [3 0 R /Fit] >>"
        o[7] = "<< /Title (b) /Parent 5 0 R /Prev 6 0 R /Dest [3 0 R /Fit] >>"
        o[8] = "<< /Title (c) /Parent 6 0 R /Next 9 0 R /Dest [3 0 R /Fit] >>"
        o[9] = "<< /Title (d) /Parent 6 0 R /Prev 8 0 R /Next 8 0 R /Dest [3 0 R /Fit] >>"
    return o
for v in ['last_next_first','self_next','prev_cycle','child_cycle']:
    open('outl_'+v+'.pdf','wb').write(build(outl(v)))
