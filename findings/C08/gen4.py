import sys
sys.path.insert(0,'/verif/findings/C08')
from gen_ac import base, build, stream
o = base("", "/AcroForm << /Fields [5 0 R] /DA (/Helv 0 Tf 0 g) >>", "/Annots [5 0 R]")
o[5] = "<< /Type /Annot /Subtype /Widget /FT /Tx /T (a) /Rect [10 10 90 30] /P 3 0 R /Parent 5 0 R /DA (/Helv 12 Tf 0 g) >>"
open('field_parent_self.pdf','wb').write(build(o))
o = base("", "/AcroForm << /Fields [6 0 R] /DA (/Helv 0 Tf 0 g) >>", "/Annots [5 0 R]")
o[5] = "<< /Type /Annot /Subtype /Widget /FT /Tx /T (a) /Rect [10 10 90 30] /P 3 0 R /Parent 6 0 R /DA (/Helv 12 Tf 0 g) >>"
o[6] = "<< /T (p) /Kids [5 0 R] /Parent 6 0 R >>"
open('field_parent_cycle.pdf','wb').write(build(o))
