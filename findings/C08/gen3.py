import sys
sys.path.insert(0,'/verif/findings/C08')
from gen_ac import base, build, stream
o = base("/XObject << /Im0 5 0 R >>")
o[5] = stream("/Type /XObject /Subtype /Image /Width 1 /Height 1 /ColorSpace /DeviceGray /BitsPerComponent 8 /SMask 5 0 R")
open('smask_self.pdf','wb').write(build(o))
