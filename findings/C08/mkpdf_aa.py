#!/usr/bin/env python3
"""Minimal PDF generator (classic xref table) for recursion-cycle reproducers.

usage: mkpdf.py <case> <out.pdf>
"""
import sys


def build(objs, root=1, extra_trailer=""):
    """objs: dict objNr -> bytes (body between 'N 0 obj' and 'endobj')."""
    out = bytearray(b"%PDF-1.7\n%\xe2\xe3\xcf\xd3\n")
    offs = {}
    for nr in sorted(objs):
        offs[nr] = len(out)
        out += b"%d 0 obj\n" % nr + objs[nr] + b"\nendobj\n"
    size = max(objs) + 1
    xref = len(out)
    out += b"xref\n0 %d\n" % size
    out += b"0000000000 65535 f \n"
    for nr in range(1, size):
        if nr in offs:
            out += b"%010d 00000 n \n" % offs[nr]
        else:
            out += b"0000000000 65535 f \n"
    out += b"trailer\n<< /Size %d /Root %d 0 R %s>>\nstartxref\n%d\n%%%%EOF\n" % (
        size, root, extra_trailer.encode(), xref)
    return bytes(out)


def stream(dict_body, data=b""):
    return b"<< " + dict_body + b" /Length %d >>\nstream\n" % len(data) + data + b"\nendstream"


CONTENT = b"BT ET"


def base(page_extra=b"", cat_extra=b""):
    return {
        1: b"<< /Type /Catalog /Pages 2 0 R " + cat_extra + b">>",
        2: b"<< /Type /Pages /Kids [3 0 R] /Count 1 >>",
        3: b"<< /Type /Page /Parent 2 0 R /MediaBox [0 0 200 200] /Contents 4 0 R " + page_extra + b">>",
        4: stream(b"", CONTENT),
    }


def case_filter_self():
    # stream obj 5 whose /Filter is an indirect reference to itself
    o = base()
    o[5] = stream(b"/Filter 5 0 R", b"x")
    return build(o)


def case_filter_pair():
    # stream 5 /Filter -> 6, stream 6 /Filter -> 5
    o = base()
    o[5] = stream(b"/Filter 6 0 R", b"x")
    o[6] = stream(b"/Filter 5 0 R", b"x")
    return build(o)


def case_decodeparms_self():
    # stream 5 /Filter /FlateDecode /DecodeParms 5 0 R
    o = base()
    o[5] = stream(b"/Filter /FlateDecode /DecodeParms 5 0 R", b"x")
    return build(o)


def case_pages_cycle():
    # Pages 2 /Kids [3 0 R 2 0 R]
    o = base()
    o[2] = b"<< /Type /Pages /Kids [3 0 R 2 0 R] /Count 1 >>"
    return build(o)


def case_pages_cycle2():
    # Pages 2 /Kids [3 0 R 5 0 R]; Pages 5 /Parent 2 /Kids [2 0 R] /Count 0
    o = base()
    o[2] = b"<< /Type /Pages /Kids [3 0 R 5 0 R] /Count 1 >>"
    o[5] = b"<< /Type /Pages /Parent 2 0 R /Kids [2 0 R] /Count 0 >>"
    return build(o)


def case_indexed_cycle():
    # image XObject 5 with /ColorSpace 6 0 R ; 6 = [/Indexed 6 0 R 0 <00>]
    o = base(page_extra=b"/Resources << /XObject << /Im0 5 0 R >> >> ")
    o[4] = stream(b"", b"q 10 0 0 10 0 0 cm /Im0 Do Q")
    o[5] = stream(b"/Type /XObject /Subtype /Image /Width 1 /Height 1 /BitsPerComponent 8 /ColorSpace 6 0 R", b"\x00")
    o[6] = b"[/Indexed 6 0 R 0 <000000>]"
    return build(o)


def case_indexed_cycle2():
    # 6 = [/Indexed 7 0 R 0 <00>] ; 7 = [/Indexed 6 0 R 0 <00>]
    o = base(page_extra=b"/Resources << /XObject << /Im0 5 0 R >> >> ")
    o[4] = stream(b"", b"q 10 0 0 10 0 0 cm /Im0 Do Q")
    o[5] = stream(b"/Type /XObject /Subtype /Image /Width 1 /Height 1 /BitsPerComponent 8 /ColorSpace 6 0 R", b"\x00")
    o[6] = b"[/Indexed 7 0 R 0 <000000>]"
    o[7] = b"[/Indexed 6 0 R 0 <000000>]"
    return build(o)


def case_indexed_cycle_mask():
    # as indexed_cycle, but /ImageMask true so the validator skips /ColorSpace
    o = base(page_extra=b"/Resources << /XObject << /Im0 5 0 R >> >> ")
    o[4] = stream(b"", b"q 10 0 0 10 0 0 cm /Im0 Do Q")
    o[5] = stream(b"/Type /XObject /Subtype /Image /Width 1 /Height 1 /ImageMask true /BitsPerComponent 1 /ColorSpace 6 0 R", b"\x00")
    o[6] = b"[/Indexed 6 0 R 0 <000000>]"
    return build(o)


def case_field_kids_cycle():
    # AcroForm /Fields [5 0 R]; 5 /Kids [6 0 R]; 6 /Parent 5 /Kids [5 0 R]
    o = base(cat_extra=b"/AcroForm << /Fields [5 0 R] >> ")
    o[5] = b"<< /T (a) /FT /Tx /Kids [6 0 R] >>"
    o[6] = b"<< /T (b) /Parent 5 0 R /Kids [5 0 R] >>"
    return build(o)


def case_widget_kids_self():
    # Field 5 is ALSO a page annotation: it is validated (and SetValid) as an annotation
    # (annotation validation ignores /Kids); validateFormFields then skips it (IsValid),
    # so /Kids [5 0 R] (self reference) is never seen by the validator.
    o = base(page_extra=b"/Annots [5 0 R] ", cat_extra=b"/AcroForm << /Fields [5 0 R] >> ")
    o[5] = b"<< /Type /Annot /Subtype /Widget /Rect [0 0 10 10] /P 3 0 R /T (a) /FT /Tx /Kids [5 0 R] >>"
    return build(o)


def case_widget_kids_trim():
    # 2 pages. page1 (obj3) /Annots [5 0 R] ordinary text field widget.
    # page2 (obj6) /Annots [7 0 R]; 7 = widget with /Kids [7 0 R].
    # AcroForm /Fields [7 0 R 5 0 R]. Extracting page 1 walks fieldsSrc: 7 first -> Kids cycle.
    o = base(page_extra=b"/Annots [5 0 R] ", cat_extra=b"/AcroForm << /Fields [7 0 R 5 0 R] >> ")
    o[2] = b"<< /Type /Pages /Kids [3 0 R 6 0 R] /Count 2 >>"
    o[5] = b"<< /Type /Annot /Subtype /Widget /Rect [0 0 10 10] /P 3 0 R /T (a) /FT /Tx >>"
    o[6] = b"<< /Type /Page /Parent 2 0 R /MediaBox [0 0 200 200] /Contents 4 0 R /Annots [7 0 R] >>"
    o[7] = b"<< /Type /Annot /Subtype /Widget /Rect [0 0 10 10] /P 6 0 R /T (b) /FT /Tx /Kids [7 0 R] >>"
    return build(o)


def case_fields_page_kids():
    # AcroForm /Fields [3 0 R] where 3 is the PAGE dict (marked valid by the page tree
    # validator, validate/page.go:1242, so validateFormFields skips it via IsValid),
    # and the page dict carries /Kids [3 0 R] (ignored for /Type /Page).
    o = base(page_extra=b"/Kids [3 0 R] ", cat_extra=b"/AcroForm << /Fields [3 0 R] >> ")
    return build(o)


def case_fields_page_kids_trim():
    # 2 pages; page1 (3) has widget 5 (regular field); page2 (6) carries /Kids [6 0 R].
    # AcroForm /Fields [6 0 R 5 0 R]: extracting page 1 -> migrateAnnot walks 6 first.
    o = base(page_extra=b"/Annots [5 0 R] ", cat_extra=b"/AcroForm << /Fields [6 0 R 5 0 R] /DA (/Helv 0 Tf 0 g) >> ")
    o[2] = b"<< /Type /Pages /Kids [3 0 R 6 0 R] /Count 2 >>"
    o[5] = b"<< /Type /Annot /Subtype /Widget /Rect [0 0 10 10] /P 3 0 R /T (a) /FT /Tx >>"
    o[6] = b"<< /Type /Page /Parent 2 0 R /MediaBox [0 0 200 200] /Contents 4 0 R /Kids [6 0 R] >>"
    return build(o)


def case_pages_cycle_ocg():
    # Pages 2 /Kids [2 0 R] (self), plus a "Watermark" OCG so DetectWatermarks walks the page tree.
    # Rejected by validation; only reachable via API paths that skip validation (api.HasWatermarks).
    o = base(cat_extra=b"/OCProperties << /OCGs [5 0 R] /D << /Order [5 0 R] >> >> ")
    o[2] = b"<< /Type /Pages /Kids [2 0 R] /Count 1 >>"
    o[5] = b"<< /Type /OCG /Name (Watermark) >>"
    return build(o)


def case_form_self():
    # Form XObject 5 whose /Resources /XObject refers back to 5, and whose ExtGState SMask /G is 5 too.
    o = base(page_extra=b"/Resources << /XObject << /F 5 0 R >> /ExtGState << /G0 6 0 R >> >> ")
    o[4] = stream(b"", b"q /F Do Q")
    o[5] = stream(b"/Type /XObject /Subtype /Form /BBox [0 0 10 10] /Group << /S /Transparency /CS /DeviceGray >> "
                  b"/Resources << /XObject << /F 5 0 R >> /ExtGState << /G0 6 0 R >> >>", b"q Q")
    o[6] = b"<< /Type /ExtGState /SMask << /Type /Mask /S /Luminosity /G 5 0 R >> >>"
    return build(o)


def case_plain():
    return build(base())


CASES = {k[5:]: v for k, v in globals().items() if k.startswith("case_")}

if __name__ == "__main__":
    if len(sys.argv) != 3 or sys.argv[1] not in CASES:
        sys.exit("usage: mkpdf.py <%s> out.pdf" % "|".join(sorted(CASES)))
    open(sys.argv[2], "wb").write(CASES[sys.argv[1]]())
