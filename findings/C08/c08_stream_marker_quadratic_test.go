package pdfcpu

import (
	"bytes"
	"context"
	"fmt"
	"strconv"
	"strings"
	"testing"
	"time"

	"github.com/pdfcpu/pdfcpu/pkg/pdfcpu/model"
)

// Demonstration for C08 / C10 (copy into pkg/pdfcpu/): an object whose dictionary holds many names
// containing the word "stream" made the object reader quadratic: for every candidate marker
// keywordStreamRightAfterEndOfDict searched the whole chunk in front of it for ">>".
// Pinned tree: 40000 markers (400 KB) ≈ 18 s, 60000 ≈ 45 s, and a cancelled read kept running for
// more than a second. Repaired tree: milliseconds.
func c08ManyStreamMarkers(n int) []byte {
	var b bytes.Buffer
	b.WriteString("%PDF-1.7\n")
	var offs []int
	add := func(s string) { offs = append(offs, b.Len()); b.WriteString(s) }
	add("1 0 obj\n<< /Type /Catalog /Pages 2 0 R >>\nendobj\n")
	add("2 0 obj\n<< /Type /Pages /Kids [3 0 R] /Count 1 >>\nendobj\n")
	add("3 0 obj\n<< /Type /Page /Parent 2 0 R /MediaBox [0 0 10 10] /X 4 0 R >>\nendobj\n")
	add("4 0 obj\n<< " + strings.Repeat("/stream 1 ", n) + ">>\nendobj\n")
	x := b.Len()
	b.WriteString("xref\n0 5\n0000000000 65535 f \n")
	for _, o := range offs {
		fmt.Fprintf(&b, "%010d 00000 n \n", o)
	}
	b.WriteString("trailer\n<< /Size 5 /Root 1 0 R >>\nstartxref\n" + strconv.Itoa(x) + "\n%%EOF\n")
	return b.Bytes()
}

func TestC08ManyStreamMarkersReadInLinearTime(t *testing.T) {
	data := c08ManyStreamMarkers(40000)
	t0 := time.Now()
	if _, err := ReadWithContext(context.Background(), bytes.NewReader(data), model.NewDefaultConfiguration()); err != nil {
		t.Fatal(err)
	}
	if d := time.Since(t0); d > 3*time.Second {
		t.Fatalf("reading a %d byte file took %v: time is not proportional to the input", len(data), d)
	}
}
