import sys
sys.path.insert(0,'/verif/findings/C08')
from gen_ac import base, build, stream
o = base("", "/Outlines 5 0 R")
D = "/Dest [3 0 R /Fit]"
o[5] = "<< /Type /Outlines /First 6 0 R /Last 9 0 R /Count 2 >>"
o[6] = "<< /Title (a) /Parent 5 0 R /Next 9 0 R /First 7 0 R /Last 8 0 R /Count 2 %s >>" % D
o[7] = "<< /Title (a1) /Parent 6 0 R /Next 8 0 R %s >>" % D
o[8] = "<< /Title (a2) /Parent 6 0 R /Prev 7 0 R %s >>" % D
o[9] = "<< /Title (b) /Parent 5 0 R /Prev 6 0 R /First 10 0 R /Last 12 0 R /Count 3 %s >>" % D
o[10] = "<< /Title (b1) /Parent 9 0 R /Next 7 0 R %s >>" % D
o[11] = "<< /Title (b2) /Parent 9 0 R /Prev 12 0 R /Next 12 0 R %s >>" % D
o[12] = "<< /Title (b3) /Parent 9 0 R /Prev 11 0 R %s >>" % D
open('outl_prev_loop.pdf','wb').write(build(o))
