package api

// Demonstration for change G (property C29).
// Copy into pkg/api/ (package api) and run:
//   go test -vet=off -count=1 -run TestC29G ./pkg/api/

import (
	"bytes"
	"fmt"
	"sort"
	"strings"
	"testing"

	"github.com/pdfcpu/pdfcpu/pkg/pdfcpu/model"
	"github.com/pdfcpu/pdfcpu/pkg/pdfcpu/types"
)

// c29npBuildPDF serializes objs (object number -> body) into a classic xref table PDF.
// Demonstration for C29 (copy into pkg/api/): a signed signature widget WITHOUT the optional /P entry (subtest "staleP",
// which here builds the widget with no /P at all). RemoveSignatures reported success and left the widget on the page, the
// signature value in the file and the signature detectable on re-read. Adapted from the demo of seed C29-G.
func c29npBuildPDF(objs map[int]string) []byte {
	var b bytes.Buffer
	b.WriteString("%PDF-1.7\n%\xe2\xe3\xcf\xd3\n")
	nrs := make([]int, 0, len(objs))
	for nr := range objs {
		nrs = append(nrs, nr)
	}
	sort.Ints(nrs)
	max := nrs[len(nrs)-1]
	offs := map[int]int{}
	for _, nr := range nrs {
		offs[nr] = b.Len()
		fmt.Fprintf(&b, "%d 0 obj\n%s\nendobj\n", nr, objs[nr])
	}
	xref := b.Len()
	fmt.Fprintf(&b, "xref\n0 %d\n", max+1)
	b.WriteString("0000000000 65535 f \n")
	for nr := 1; nr <= max; nr++ {
		if off, ok := offs[nr]; ok {
			fmt.Fprintf(&b, "%010d 00000 n \n", off)
		} else {
			b.WriteString("0000000000 65535 f \n")
		}
	}
	fmt.Fprintf(&b, "trailer\n<</Size %d/Root 1 0 R>>\nstartxref\n%d\n%%%%EOF\n", max+1, xref)
	return b.Bytes()
}

// c29npSignedDoc returns a one page document with a single signed signature field (obj 6),
// merged with its widget annotation which is listed in the page's Annots.
// widgetP is the value of the widget's /P entry.
func c29npSignedDoc(widgetP string) []byte {
	content := "BT /F1 12 Tf 20 100 Td (C29 demo) Tj ET"
	return c29npBuildPDF(map[int]string{
		1: "<</Type/Catalog/Pages 2 0 R/AcroForm 5 0 R>>",
		2: "<</Type/Pages/Kids[3 0 R]/Count 1>>",
		3: "<</Type/Page/Parent 2 0 R/MediaBox[0 0 200 200]/Resources<</Font<</F1 8 0 R>>>>/Contents 4 0 R/Annots[6 0 R]>>",
		4: fmt.Sprintf("<</Length %d>>\nstream\n%s\nendstream", len(content), content),
		5: "<</Fields[6 0 R]/SigFlags 3>>",
		6: "<</Type/Annot/Subtype/Widget/FT/Sig/T(Signature1)/Rect[10 10 60 40]/F 132" + widgetP + "/V 7 0 R>>",
		7: "<</Type/Sig/Filter/Adobe.PPKLite/SubFilter/adbe.pkcs7.detached/ByteRange[0 100 200 100]/Contents<" + strings.Repeat("00", 32) + ">>>",
		8: "<</Type/Font/Subtype/Type1/BaseFont/Helvetica>>",
	})
}

// c29npLeftovers lists what is left of signatures in the PDF bb.
func c29npLeftovers(t *testing.T, bb []byte) []string {
	t.Helper()
	ctx, err := ReadValidateAndOptimize(bytes.NewReader(bb), model.NewDefaultConfiguration())
	if err != nil {
		t.Fatalf("re-read: %v", err)
	}
	var ss []string
	for _, k := range []string{"Perms", "DSS", "Legal"} {
		if _, ok := ctx.RootDict.Find(k); ok {
			ss = append(ss, "catalog entry "+k)
		}
	}
	if len(ctx.Signatures) > 0 {
		ss = append(ss, fmt.Sprintf("%d signature(s) detected on re-read", len(ctx.Signatures)))
	}
	for i := 1; i <= ctx.PageCount; i++ {
		d, _, _, err := ctx.PageDict(i, false)
		if err != nil {
			t.Fatalf("page %d: %v", i, err)
		}
		o, ok := d.Find("Annots")
		if !ok {
			continue
		}
		arr, err := ctx.DereferenceArray(o)
		if err != nil {
			t.Fatalf("page %d annots: %v", i, err)
		}
		for _, v := range arr {
			ad, err := ctx.DereferenceDict(v)
			if err != nil || ad == nil {
				continue
			}
			if ft := ad.NameEntry("FT"); ft != nil && *ft == "Sig" {
				ss = append(ss, fmt.Sprintf("page %d still lists signature widget %v", i, v))
			}
		}
	}
	for nr, e := range ctx.Table {
		if e == nil || e.Free || e.Object == nil {
			continue
		}
		d, ok := e.Object.(types.Dict)
		if !ok {
			continue
		}
		if _, ok := d.Find("ByteRange"); ok {
			ss = append(ss, fmt.Sprintf("obj %d is a signature value (ByteRange)", nr))
		}
	}
	sort.Strings(ss)
	return ss
}

func TestC29WidgetWithoutP(t *testing.T) {
	// Control: a well formed widget, /P references its page.
	t.Run("control", func(t *testing.T) {
		var out bytes.Buffer
		if err := RemoveSignatures(bytes.NewReader(c29npSignedDoc("/P 3 0 R")), &out, nil); err != nil {
			t.Fatalf("remove signatures: %v", err)
		}
		if ss := c29npLeftovers(t, out.Bytes()); len(ss) > 0 {
			t.Fatalf("signature leftovers: %v", ss)
		}
	})

	// The widget's /P references the page tree root instead of its page.
	// Either the operation fails and writes nothing or the result is free of signatures.
	t.Run("staleP", func(t *testing.T) {
		var out bytes.Buffer
		err := RemoveSignatures(bytes.NewReader(c29npSignedDoc("")), &out, nil)
		if err != nil {
			if out.Len() > 0 {
				t.Fatalf("failed with %v but wrote %d bytes", err, out.Len())
			}
			t.Logf("rejected, nothing written: %v", err)
			return
		}
		if ss := c29npLeftovers(t, out.Bytes()); len(ss) > 0 {
			t.Fatalf("RemoveSignatures reported success but left: %v", ss)
		}
	})
}
