package types

import "testing"

// Demonstration for C13 (copy into pkg/pdfcpu/types/): U+E000, the first private use character, is a
// valid Unicode scalar value. decodeUTF16String tested `val > 0xE000` for the upper BMP range, so the
// code unit E000 was taken for a high surrogate and a well-formed UTF-16BE string failed to decode.
func TestC13PrivateUseE000RoundTrips(t *testing.T) {
	for _, s := range []string{"\ue000", "a\ue000b", "\ud7ff\ue000\ue001\uffff", "\ue000\U0001F600"} {
		enc := EncodeUTF16String(s)
		dec, err := DecodeUTF16String(enc)
		if err != nil {
			t.Errorf("%+q: decoding what EncodeUTF16String wrote (% x) failed: %v", s, enc, err)
			continue
		}
		if dec != s {
			t.Errorf("%+q read back as %+q", s, dec)
		}
	}
}
