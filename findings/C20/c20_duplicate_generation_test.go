package api

import (
	"bytes"
	"fmt"
	"regexp"
	"strconv"
	"testing"

	"github.com/pdfcpu/pdfcpu/pkg/pdfcpu/model"
)

// Demonstration for C20 (copy into pkg/api/): two identical fonts, the first one is object 5 generation 2. Optimize
// replaced the second by a reference "5 0 R" while the object is written as "5 2 obj": the reference names no
// object, page 2 loses its font in every conforming reader.
func TestC20DuplicateOfObjectWithGenerationKeepsGeneration(t *testing.T) {
	var b bytes.Buffer
	b.WriteString("%PDF-1.7\n")
	type obj struct{ nr, gen, off int }
	var objs []obj
	add := func(nr, gen int, body string) {
		objs = append(objs, obj{nr, gen, b.Len()})
		fmt.Fprintf(&b, "%d %d obj\n%s\nendobj\n", nr, gen, body)
	}
	content := "BT /F1 12 Tf 10 10 Td (x) Tj ET"
	add(1, 0, "<< /Type /Catalog /Pages 2 0 R >>")
	add(2, 0, "<< /Type /Pages /Kids [3 0 R 7 0 R] /Count 2 >>")
	add(3, 0, "<< /Type /Page /Parent 2 0 R /MediaBox [0 0 100 100] /Contents 4 0 R /Resources << /Font << /F1 5 2 R >> >> >>")
	add(4, 0, "<< /Length "+strconv.Itoa(len(content))+" >>\nstream\n"+content+"\nendstream")
	add(5, 2, "<< /Type /Font /Subtype /Type1 /BaseFont /Helvetica >>")
	add(6, 0, "<< /Type /Font /Subtype /Type1 /BaseFont /Helvetica >>")
	add(7, 0, "<< /Type /Page /Parent 2 0 R /MediaBox [0 0 100 100] /Contents 4 0 R /Resources << /Font << /F1 6 0 R >> >> >>")
	x := b.Len()
	b.WriteString("xref\n0 8\n0000000000 65535 f \n")
	for _, o := range objs {
		fmt.Fprintf(&b, "%010d %05d n \n", o.off, o.gen)
	}
	b.WriteString("trailer\n<< /Size 8 /Root 1 0 R >>\nstartxref\n" + strconv.Itoa(x) + "\n%%EOF\n")

	conf := model.NewDefaultConfiguration()
	conf.WriteObjectStream = false
	conf.WriteXRefStream = false
	var out bytes.Buffer
	if err := Optimize(bytes.NewReader(b.Bytes()), &out, conf); err != nil {
		t.Fatalf("Optimize: %v", err)
	}
	s := out.String()
	hdr := regexp.MustCompile(`(?m)^(\d+) (\d+) obj`).FindAllStringSubmatch(s, -1)
	gens := map[string]string{}
	for _, h := range hdr {
		gens[h[1]] = h[2]
	}
	for _, r := range regexp.MustCompile(`/F1 (\d+) (\d+) R`).FindAllStringSubmatch(s, -1) {
		if gens[r[1]] != r[2] {
			t.Errorf("reference %s %s R but the object is written as %s %s obj", r[1], r[2], r[1], gens[r[1]])
		}
	}
}
