package api

import (
	"bytes"
	"fmt"
	"strconv"
	"testing"

	"github.com/pdfcpu/pdfcpu/pkg/pdfcpu/model"
	"github.com/pdfcpu/pdfcpu/pkg/pdfcpu/types"
)

// Demonstration for C20 (copy into pkg/api/): a page uses a font under a resource name that needs a #xx escape
// (/Helv#20Regular = "Helv Regular"). The parser decodes dict keys, the content-stream scanner did not decode the
// names it collects, so the resource consolidation of Optimize took the font for unused and deleted it from the
// page's resource dictionary: the optimized page refers to a font it no longer has.
func TestC20EscapedResourceNameSurvivesOptimize(t *testing.T) {
	var b bytes.Buffer
	b.WriteString("%PDF-1.7\n")
	var offs []int
	add := func(s string) { offs = append(offs, b.Len()); b.WriteString(s) }
	content := "BT /Helv#20Regular 12 Tf 10 10 Td (x) Tj ET"
	add("1 0 obj\n<< /Type /Catalog /Pages 2 0 R >>\nendobj\n")
	add("2 0 obj\n<< /Type /Pages /Kids [3 0 R] /Count 1 >>\nendobj\n")
	add("3 0 obj\n<< /Type /Page /Parent 2 0 R /MediaBox [0 0 100 100] /Contents 4 0 R /Resources << /Font << /Helv#20Regular 5 0 R /Plain 5 0 R >> >> >>\nendobj\n")
	add("4 0 obj\n<< /Length " + strconv.Itoa(len(content)) + " >>\nstream\n" + content + "\nendstream\nendobj\n")
	add("5 0 obj\n<< /Type /Font /Subtype /Type1 /BaseFont /Helvetica >>\nendobj\n")
	x := b.Len()
	b.WriteString("xref\n0 6\n0000000000 65535 f \n")
	for _, o := range offs {
		fmt.Fprintf(&b, "%010d 00000 n \n", o)
	}
	b.WriteString("trailer\n<< /Size 6 /Root 1 0 R >>\nstartxref\n" + strconv.Itoa(x) + "\n%%EOF\n")

	var out bytes.Buffer
	if err := Optimize(bytes.NewReader(b.Bytes()), &out, model.NewDefaultConfiguration()); err != nil {
		t.Fatalf("Optimize: %v", err)
	}
	ctx, err := ReadValidateAndOptimize(bytes.NewReader(out.Bytes()), model.NewDefaultConfiguration())
	if err != nil {
		t.Fatalf("re-read: %v", err)
	}
	d, _, inh, err := ctx.PageDict(1, false)
	if err != nil || d == nil {
		t.Fatalf("PageDict: %v", err)
	}
	res := inh.Resources
	if res == nil {
		t.Fatalf("page 1 has no resources after Optimize")
	}
	fonts, _ := res["Font"].(types.Dict)
	if fonts == nil {
		if o, ok := res.Find("Font"); ok {
			fonts, _ = ctx.DereferenceDict(o)
		}
	}
	if _, ok := fonts["Helv Regular"]; !ok {
		t.Fatalf("the font the content stream selects (/Helv#20Regular) is gone from the page's resources after Optimize: %v", fonts)
	}
	if _, ok := fonts["Plain"]; ok {
		t.Fatalf("the unused font /Plain should have been removed by the consolidation: %v", fonts)
	}
}
