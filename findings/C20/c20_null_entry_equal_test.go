package api

// Demo for seeded change C20-A. Copy into pkg/api/ and run:
//   go test -vet=off -count=1 -run 'TestC20A' ./pkg/api/
//
// Property C20: optimizing a document never changes the images and fonts (by content)
// each page uses. The demo builds small documents that contain NEAR duplicates:
// the second resource has the same stream bytes / the same BaseFont as the first one but
// its dictionary is a strict superset of the first one's dictionary (an extra /Decode entry
// that inverts the image, an extra /Encoding entry on the font).
// These are not duplicates and optimization must leave every page with the resource it had.

import (
	"bytes"
	"crypto/sha256"
	"fmt"
	"sort"
	"strings"
	"testing"

	"github.com/pdfcpu/pdfcpu/pkg/pdfcpu/model"
	"github.com/pdfcpu/pdfcpu/pkg/pdfcpu/types"
)

// c20fBuildPDF serializes objs (object number i+1 = objs[i]) into a classic xref table PDF.
func c20fBuildPDF(objs []string) []byte {
	var b bytes.Buffer
	b.WriteString("%PDF-1.7\n%\xe2\xe3\xcf\xd3\n")
	offs := make([]int, len(objs))
	for i, o := range objs {
		offs[i] = b.Len()
		fmt.Fprintf(&b, "%d 0 obj\n%s\nendobj\n", i+1, o)
	}
	xref := b.Len()
	fmt.Fprintf(&b, "xref\n0 %d\n0000000000 65535 f \n", len(objs)+1)
	for _, off := range offs {
		fmt.Fprintf(&b, "%010d 00000 n \n", off)
	}
	fmt.Fprintf(&b, "trailer\n<</Size %d /Root 1 0 R>>\nstartxref\n%d\n%%%%EOF\n", len(objs)+1, xref)
	return b.Bytes()
}

func c20fStream(dict, data string) string {
	return fmt.Sprintf("<<%s /Length %d>>\nstream\n%s\nendstream", dict, len(data), data)
}

// c20fCanon renders o as a canonical string: indirect references are resolved, dict keys are sorted,
// streams are represented by their dict (without Length) plus the hash of their decoded content.
func c20fCanon(t *testing.T, ctx *model.Context, o types.Object, depth int) string {
	t.Helper()
	if depth > 20 {
		return "<deep>"
	}
	o, err := ctx.Dereference(o)
	if err != nil {
		t.Fatalf("dereference: %v", err)
	}
	dict := func(d types.Dict) string {
		keys := make([]string, 0, len(d))
		for k := range d {
			if k == "Length" {
				continue
			}
			keys = append(keys, k)
		}
		sort.Strings(keys)
		ss := make([]string, 0, len(keys))
		for _, k := range keys {
			ss = append(ss, "/"+k+" "+c20fCanon(t, ctx, d[k], depth+1))
		}
		return "<<" + strings.Join(ss, " ") + ">>"
	}
	switch o := o.(type) {
	case nil:
		return "null"
	case types.Dict:
		return dict(o)
	case types.StreamDict:
		if err := o.Decode(); err != nil {
			t.Fatalf("decode: %v", err)
		}
		return fmt.Sprintf("%s stream:%x", dict(o.Dict), sha256.Sum256(o.Content))
	case types.Array:
		ss := make([]string, 0, len(o))
		for _, e := range o {
			ss = append(ss, c20fCanon(t, ctx, e, depth+1))
		}
		return "[" + strings.Join(ss, " ") + "]"
	default:
		return o.String()
	}
}

// c20fFingerprint returns, per page, the decoded page content and the canonical form of the named resources.
func c20fFingerprint(t *testing.T, pdf []byte, category string, names []string) []string {
	t.Helper()
	conf := model.NewDefaultConfiguration()
	ctx, err := ReadContext(bytes.NewReader(pdf), conf)
	if err != nil {
		t.Fatalf("read: %v", err)
	}
	if err := ValidateContext(ctx); err != nil {
		t.Fatalf("validate: %v", err)
	}
	fp := make([]string, 0, ctx.PageCount)
	for p := 1; p <= ctx.PageCount; p++ {
		pageDict, _, inh, err := ctx.PageDict(p, false)
		if err != nil {
			t.Fatalf("page %d: %v", p, err)
		}
		content, err := ctx.PageContent(pageDict, p)
		if err != nil {
			t.Fatalf("page %d content: %v", p, err)
		}
		s := fmt.Sprintf("page %d content=%q", p, content)
		sub, err := ctx.DereferenceDict(inh.Resources[category])
		if err != nil {
			t.Fatalf("page %d %s: %v", p, category, err)
		}
		for _, n := range names {
			if v, ok := sub[n]; ok {
				s += fmt.Sprintf(" %s/%s=%s", category, n, c20fCanon(t, ctx, v, 0))
			}
		}
		fp = append(fp, s)
	}
	return fp
}

func c20fOptimize(t *testing.T, in []byte) []byte {
	t.Helper()
	var out bytes.Buffer
	if err := Optimize(bytes.NewReader(in), &out, model.NewDefaultConfiguration()); err != nil {
		t.Fatalf("optimize: %v", err)
	}
	return out.Bytes()
}

func c20fCheck(t *testing.T, in []byte, category string, names []string) {
	t.Helper()
	before := c20fFingerprint(t, in, category, names)
	once := c20fOptimize(t, in)
	after := c20fFingerprint(t, once, category, names)
	if len(before) != len(after) {
		t.Fatalf("page count changed: %d -> %d", len(before), len(after))
	}
	for i := range before {
		if before[i] != after[i] {
			t.Errorf("optimization changed what page %d shows:\n before: %s\n after:  %s", i+1, before[i], after[i])
		}
	}
	// Optimizing the optimized document must keep it stable as well.
	again := c20fFingerprint(t, c20fOptimize(t, once), category, names)
	for i := range after {
		if i < len(again) && after[i] != again[i] {
			t.Errorf("second optimization changed what page %d shows:\n before: %s\n after:  %s", i+1, after[i], again[i])
		}
	}
}

// Finding (unpatched tree): model.EqualObjects compares a null entry as EQUAL to any non-null value
// (`if o1 == nil { return o2 != nil, nil }`), so the font duplicate detector merges two fonts that differ
// in an entry which is null in the first-visited dictionary.
// Page 1 uses Helvetica with /Encoding 9 0 R where object 9 is the null object (built-in encoding), page 2 Helvetica with /MacRomanEncoding.
func TestC20FindingNullEntryEqualsAnything(t *testing.T) {
	content := "BT /F1 12 Tf 20 100 Td (\\212 \\344) Tj ET"
	objs := []string{
		"<</Type /Catalog /Pages 2 0 R>>",
		"<</Type /Pages /Kids [3 0 R 4 0 R] /Count 2>>",
		"<</Type /Page /Parent 2 0 R /MediaBox [0 0 200 200] /Resources <</Font <</F1 7 0 R>>>> /Contents 5 0 R>>",
		"<</Type /Page /Parent 2 0 R /MediaBox [0 0 200 200] /Resources <</Font <</F1 8 0 R>>>> /Contents 6 0 R>>",
		c20fStream("", content),
		c20fStream("", content),
		"<</Type /Font /Subtype /Type1 /BaseFont /Helvetica /Encoding 9 0 R>>",
		"<</Type /Font /Subtype /Type1 /BaseFont /Helvetica /Encoding /MacRomanEncoding>>",
		"null",
	}
	c20fCheck(t, c20fBuildPDF(objs), "Font", []string{"F1"})
}
