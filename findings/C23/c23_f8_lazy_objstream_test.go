package api_test

// F8 / property C23: EXISTING violation on the unmodified tree.
//
// Objects that live in an object stream of the input file are loaded lazily
// (types.LazyObjectStreamObject). The writer dereferences with
// XRefTable.DereferenceForWrite (decodeLazy=false); an object nobody decoded
// before (e.g. one that is only reachable through a key the validator does not
// know) is still lazy at write time and is emitted by
// writeLazyObjectStreamObject (pkg/pdfcpu/writeObjects.go) via
// writeObject(ctx, objNr, genNr, string(data)) - the raw, decrypted source bytes,
// without passing through encryptDeepObject and without going into an
// (encrypted) object stream. Its strings end up in the clear inside a document
// that otherwise is encrypted and carries /Encrypt.
//
// Copy this file into pkg/api/ and run:
//
//	go test -vet=off -count=1 -v -run TestC23F8LazyObjectStreamObjectWrittenUnencrypted ./pkg/api/
//
// Expected on the clean tree: FAIL (markers found in the encrypted output for RC4-128 and AES-256).
// Everything is built in memory, no fixtures needed.

import (
	"bytes"
	"fmt"
	"strings"
	"testing"

	"github.com/pdfcpu/pdfcpu/pkg/api"
	"github.com/pdfcpu/pdfcpu/pkg/pdfcpu/model"
)

// c23f8BuildPDF assembles a classic (xref table) PDF from the object bodies 1..n.
func c23f8BuildPDF(objs []string) []byte {
	var b bytes.Buffer
	b.WriteString("%PDF-1.7\n%\xe2\xe3\xcf\xd3\n")
	offs := make([]int, len(objs)+1)
	for i, o := range objs {
		offs[i+1] = b.Len()
		fmt.Fprintf(&b, "%d 0 obj\n%s\nendobj\n", i+1, o)
	}
	xref := b.Len()
	fmt.Fprintf(&b, "xref\n0 %d\n0000000000 65535 f \n", len(objs)+1)
	for i := 1; i <= len(objs); i++ {
		fmt.Fprintf(&b, "%010d 00000 n \n", offs[i])
	}
	fmt.Fprintf(&b, "trailer\n<</Size %d/Root 1 0 R>>\nstartxref\n%d\n%%%%EOF\n", len(objs)+1, xref)
	return b.Bytes()
}

func TestC23F8LazyObjectStreamObjectWrittenUnencrypted(t *testing.T) {
	saved := model.ConfigPath
	model.ConfigPath = "disable"
	defer func() { model.ConfigPath = saved }()

	const (
		markControl = "AnnotMarkerQ1W2E3R4" // control: annotation /Contents, gets decoded by validation
		markDict    = "LazyMarkerZ9X8C7V6"  // string in a dict only reachable via a private key
		markArray   = "LazyMarkerArr5T6Y7U" // string in an array nested in that dict
	)

	content := "BT /F1 12 Tf 72 720 Td (hello) Tj ET"
	objs := []string{
		// 1: catalog
		"<</Type/Catalog/Pages 2 0 R>>",
		// 2: page tree root
		"<</Type/Pages/Kids[3 0 R]/Count 1>>",
		// 3: page
		"<</Type/Page/Parent 2 0 R/MediaBox[0 0 612 792]/Contents 4 0 R/Annots[5 0 R]" +
			"/Resources<</Font<</F1<</Type/Font/Subtype/Type1/BaseFont/Helvetica>>>>>>>>",
		// 4: content stream
		fmt.Sprintf("<</Length %d>>\nstream\n%s\nendstream", len(content), content),
		// 5: text annotation referencing object 6 through an application private key
		"<</Type/Annot/Subtype/Text/Rect[10 10 30 30]/Contents(" + markControl + ")/C23Private 6 0 R>>",
		// 6: private data, never looked at by validation/optimization
		"<</Secret(" + markDict + ")/More[(" + markArray + ")]>>",
	}
	src := c23f8BuildPDF(objs)

	// Step 1: let pdfcpu rewrite the file. With the default configuration the page tree
	// (including annotation 5 and private object 6) is packed into an object stream.
	var step1 bytes.Buffer
	if err := api.Optimize(bytes.NewReader(src), &step1, model.NewDefaultConfiguration()); err != nil {
		t.Fatalf("step 1 (optimize): %v", err)
	}
	if !bytes.Contains(step1.Bytes(), []byte("/ObjStm")) {
		t.Fatalf("test setup: step 1 output does not use object streams")
	}
	// Informational only: the object stream is Flate encoded, so the markers normally are not visible in the step 1 output.
	for _, m := range []string{markControl, markDict, markArray} {
		t.Logf("step 1 output: marker %s visible in raw bytes: %v", m, bytes.Contains(step1.Bytes(), []byte(m)))
	}

	// Step 2: encrypt the step 1 output.
	for _, tc := range []struct {
		name string
		conf *model.Configuration
	}{
		{"RC4-128", model.NewRC4Configuration("upw", "opw", 128)},
		{"AES-256", model.NewAESConfiguration("upw", "opw", 256)},
	} {
		var out bytes.Buffer
		if err := api.Encrypt(bytes.NewReader(step1.Bytes()), &out, tc.conf); err != nil {
			t.Fatalf("%s: step 2 (encrypt): %v", tc.name, err)
		}
		raw := out.Bytes()
		if !bytes.Contains(raw, []byte("/Encrypt")) {
			t.Fatalf("%s: output is not encrypted", tc.name)
		}
		for _, m := range []string{markControl, markDict, markArray} {
			if i := bytes.Index(raw, []byte(m)); i >= 0 {
				lo := max(0, i-40)
				hi := min(len(raw), i+len(m)+8)
				t.Errorf("%s: C23 VIOLATED: plaintext marker %s found in encrypted output at offset %d: %q",
					tc.name, m, i, strings.ToValidUTF8(string(raw[lo:hi]), "?"))
			}
		}
	}
}
