package api

import (
	"errors"
	"os"
	"path/filepath"
	"testing"
)

// Demonstration for C01 (copy into pkg/api/): an operation with an explicit NEW output file whose input
// cannot be closed (injected close fault on the input handle) returns an error — and left the new output
// file behind. "No output file that did not exist before the call remains afterwards."
func TestC01InputCloseErrorLeavesNoNewOutput(t *testing.T) {
	dir := t.TempDir()
	inFile := filepath.Join(dir, "in.pdf")
	outFile := filepath.Join(dir, "out.pdf")
	if err := os.WriteFile(inFile, []byte("%PDF-1.7\n"), 0o644); err != nil {
		t.Fatal(err)
	}
	in, err := os.Open(inFile)
	if err != nil {
		t.Fatal(err)
	}
	ops := defaultFileOperations()
	closeFault := errors.New("injected: close input")
	ops.closeFn = func(f *os.File) error {
		err := f.Close()
		if f == in {
			return closeFault
		}
		return err
	}
	staged, err := openStagedOutputWithOperations(in, inFile, outFile, "demo", ops)
	if err != nil {
		t.Fatal(err)
	}
	if _, err := staged.output.file.WriteString("result"); err != nil {
		t.Fatal(err)
	}
	err = staged.commit()
	if !errors.Is(err, closeFault) {
		t.Fatalf("commit: want the injected close error, got %v", err)
	}
	if _, statErr := os.Stat(outFile); statErr == nil {
		t.Fatalf("the operation failed (%v) but its new output file %s is still there", err, filepath.Base(outFile))
	}
	entries, _ := os.ReadDir(dir)
	if len(entries) != 1 {
		t.Fatalf("directory holds %d entries after the failed operation, want only the input", len(entries))
	}
}
