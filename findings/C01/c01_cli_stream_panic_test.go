// Demonstration for the C01 known findings "cli stream wrappers": `return nil, finalize(api.X(rs, w, ...))`
// (copy into pkg/cli/, package cli; go test -run TestC01CLIStreamPanic ./pkg/cli).
// With stdin input and a file output, a panic inside api.X skips finalize: the reserved output file remains.
// cli.Dispatch recovers the panic, so the process lives on with the leftover.
package cli

import (
	"os"
	"path/filepath"
	"strings"
	"testing"

	"github.com/pdfcpu/pdfcpu/pkg/log"
	"github.com/pdfcpu/pdfcpu/pkg/pdfcpu/model"
)

type c01StreamPanicLogger struct{}

func (c01StreamPanicLogger) Printf(format string, args ...interface{}) {
	if strings.Contains(format, "offset after writeHeader") {
		panic("c01 demo: logger panics in the write phase")
	}
}
func (c01StreamPanicLogger) Println(args ...interface{})               {}
func (c01StreamPanicLogger) Fatalf(format string, args ...interface{}) {}
func (c01StreamPanicLogger) Fatalln(args ...interface{})               {}

func TestC01CLIStreamPanic(t *testing.T) {
	dir := t.TempDir()
	in, err := os.Open(filepath.Join("..", "testdata", "Acroforms2.pdf"))
	if err != nil {
		t.Fatal(err)
	}
	defer in.Close()
	oldStdin := os.Stdin
	os.Stdin = in
	defer func() { os.Stdin = oldStdin }()

	out := filepath.Join(dir, "out.pdf")
	conf := model.NewDefaultConfiguration()
	cmd := OptimizeCommand("-", out, conf)
	log.SetWriteLogger(c01StreamPanicLogger{})
	defer log.SetWriteLogger(nil)
	_, err = Dispatch(cmd) // Dispatch recovers the panic and returns it as an error
	t.Logf("Dispatch returned: %v", err)
	if err == nil {
		t.Fatal("expected the operation to fail (panic inside api.Optimize)")
	}
	if _, statErr := os.Stat(out); statErr == nil {
		t.Errorf("the reserved output %s remains after the aborted operation", filepath.Base(out))
	}
}
