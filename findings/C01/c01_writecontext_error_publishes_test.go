package api_test

import (
	"os"
	"path/filepath"
	"testing"

	"github.com/pdfcpu/pdfcpu/pkg/api"
	"github.com/pdfcpu/pdfcpu/pkg/pdfcpu"
	"github.com/pdfcpu/pdfcpu/pkg/pdfcpu/model"
)

func TestC01WriteContextErrorPublishes(t *testing.T) {
	dir := t.TempDir()
	ctx, err := api.ReadContextFile(filepath.Join("..", "testdata", "Acroforms2.pdf"))
	if err != nil {
		t.Fatal(err)
	}
	out := filepath.Join(dir, "out.pdf")
	os.WriteFile(out, []byte("sentinel"), 0o644)
	ctx.Write.DirName, ctx.Write.FileName = filepath.Split(out)
	ctx.Cmd = model.SETPERMISSIONS // ordinary error in the write phase: "update encryption" on an unencrypted file
	func() {
		defer func() { recover() }()
		err = pdfcpu.WriteContext(ctx)
	}()
	t.Logf("err=%v", err)
	b, _ := os.ReadFile(out)
	if string(b) != "sentinel" {
		t.Errorf("existing output replaced although WriteContext failed (len=%d)", len(b))
	}
	es, _ := os.ReadDir(dir)
	for _, e := range es {
		t.Logf("file %s", e.Name())
	}
}
