// Demonstration for C01 findings (copy into pkg/api/, package api_test; go test -run TestC01Panic ./pkg/api).
// A panic raised inside the operation (here: by a caller-supplied log.Logger, real code otherwise) must leave a
// pre-existing output untouched and must not leave new/staging files behind.
package api_test

import (
	"bytes"
	"os"
	"path/filepath"
	"strings"
	"testing"

	"github.com/pdfcpu/pdfcpu/pkg/api"
	"github.com/pdfcpu/pdfcpu/pkg/log"
	"github.com/pdfcpu/pdfcpu/pkg/pdfcpu"
	"github.com/pdfcpu/pdfcpu/pkg/pdfcpu/model"
)

type c01PanicLogger struct{ trigger string }

func (l c01PanicLogger) Printf(format string, args ...interface{}) {
	if strings.Contains(format, l.trigger) {
		panic("c01 demo: logger panics at " + l.trigger)
	}
}
func (l c01PanicLogger) Println(args ...interface{}) {
	for _, a := range args {
		if s, ok := a.(string); ok && strings.Contains(s, l.trigger) {
			panic("c01 demo: logger panics at " + l.trigger)
		}
	}
}
func (l c01PanicLogger) Fatalf(format string, args ...interface{}) {}
func (l c01PanicLogger) Fatalln(args ...interface{})               {}

func c01Run(t *testing.T, name string, writeTrigger, cliTrigger string, op func(dir, in, out string) error) {
	t.Run(name, func(t *testing.T) {
		dir := t.TempDir()
		in := filepath.Join(dir, "in.pdf")
		src, err := os.ReadFile(filepath.Join("..", "testdata", "Acroforms2.pdf"))
		if err != nil {
			t.Fatal(err)
		}
		if err := os.WriteFile(in, src, 0o644); err != nil {
			t.Fatal(err)
		}
		for _, existing := range []bool{true, false} {
			out := filepath.Join(dir, "out.pdf")
			sentinel := []byte("pre-existing output, must survive")
			os.Remove(out)
			if existing {
				if err := os.WriteFile(out, sentinel, 0o644); err != nil {
					t.Fatal(err)
				}
			}
			if writeTrigger != "" {
				log.SetWriteLogger(c01PanicLogger{writeTrigger})
			}
			if cliTrigger != "" {
				log.SetCLILogger(c01PanicLogger{cliTrigger})
			}
			panicked := false
			func() {
				defer func() {
					log.SetWriteLogger(nil)
					log.SetCLILogger(nil)
					if r := recover(); r != nil {
						panicked = true
					}
				}()
				_ = op(dir, in, out)
			}()
			if !panicked {
				t.Fatalf("existing=%v: the demo did not panic inside the operation", existing)
			}
			if existing {
				got, err := os.ReadFile(out)
				if err != nil || !bytes.Equal(got, sentinel) {
					t.Errorf("existing=%v: pre-existing output was damaged by the aborted operation (len=%d err=%v)", existing, len(got), err)
				}
			} else if _, err := os.Stat(out); err == nil {
				t.Errorf("existing=%v: a new output file remains after the aborted operation", existing)
			}
			entries, _ := os.ReadDir(dir)
			for _, e := range entries {
				if e.Name() != "in.pdf" && e.Name() != "out.pdf" {
					t.Errorf("existing=%v: leftover file %q in the output directory", existing, e.Name())
					os.Remove(filepath.Join(dir, e.Name()))
				}
			}
		}
	})
}

func TestC01PanicInsideOperation(t *testing.T) {
	conf := func() *model.Configuration { return model.NewDefaultConfiguration() }
	const hdr = "offset after writeHeader"
	c01Run(t, "MergeCreateFile", hdr, "", func(dir, in, out string) error {
		return api.MergeCreateFile([]string{in, in}, out, false, conf())
	})
	c01Run(t, "MergeCreateZipFile", hdr, "", func(dir, in, out string) error {
		return api.MergeCreateZipFile(in, in, out, conf())
	})
	c01Run(t, "pdfcpu.WriteContext(file mode)", hdr, "", func(dir, in, out string) error {
		ctx, err := api.ReadContextFile(in)
		if err != nil {
			return err
		}
		ctx.Write.DirName, ctx.Write.FileName = filepath.Split(out)
		return pdfcpu.WriteContext(ctx)
	})
	c01Run(t, "WriteContextFile", hdr, "", func(dir, in, out string) error {
		ctx, err := api.ReadContextFile(in)
		if err != nil {
			return err
		}
		return api.WriteContextFile(ctx, out)
	})
	c01Run(t, "CreatePDFFile", hdr, "", func(dir, in, out string) error {
		x, err := pdfcpu.CreateDemoXRef()
		if err != nil {
			return err
		}
		return api.CreatePDFFile(x, out, conf())
	})
	c01Run(t, "NUpFile(log after reserve)", "", "writing", func(dir, in, out string) error {
		nup, err := api.PDFNUpConfig(2, "", conf())
		if err != nil {
			return err
		}
		return api.NUpFile([]string{in}, out, nil, nup, conf())
	})
	c01Run(t, "ExportBookmarksFile(log after reserve)", "", "writing", func(dir, in, out string) error {
		return api.ExportBookmarksFile(in, out, conf())
	})
}
