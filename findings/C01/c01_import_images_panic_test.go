// Demonstration for C01 finding F3 (copy into pkg/cli/, package cli; go test -run TestC01ImportImagesPanic ./pkg/cli).
package cli

import (
	"bytes"
	"io"
	"os"
	"path/filepath"
	"strings"
	"testing"

	"github.com/pdfcpu/pdfcpu/pkg/log"
	"github.com/pdfcpu/pdfcpu/pkg/pdfcpu"
	"github.com/pdfcpu/pdfcpu/pkg/pdfcpu/model"
)

type c01PanicLogger struct{}

func (c01PanicLogger) Printf(format string, args ...interface{}) {
	if strings.Contains(format, "offset after writeHeader") {
		panic("c01 demo: logger panics in the write phase")
	}
}
func (c01PanicLogger) Println(args ...interface{})               {}
func (c01PanicLogger) Fatalf(format string, args ...interface{}) {}
func (c01PanicLogger) Fatalln(args ...interface{})               {}

func TestC01ImportImagesPanic(t *testing.T) {
	dir := t.TempDir()
	img, err := os.ReadFile(filepath.Join("..", "testdata", "resources", "demo.png"))
	if err != nil {
		t.Fatal(err)
	}
	out := filepath.Join(dir, "out.pdf")
	orig, err := os.ReadFile(filepath.Join("..", "testdata", "Acroforms2.pdf"))
	if err != nil {
		t.Fatal(err)
	}
	if err := os.WriteFile(out, orig, 0o644); err != nil {
		t.Fatal(err)
	}
	panicked := false
	func() {
		log.SetWriteLogger(c01PanicLogger{})
		defer func() {
			log.SetWriteLogger(nil)
			if recover() != nil {
				panicked = true
			}
		}()
		_ = importImagesToFile(out, []io.Reader{bytes.NewReader(img)}, nil, pdfcpu.DefaultImportConfig(), model.NewDefaultConfiguration())
	}()
	if !panicked {
		t.Fatal("demo did not panic inside the operation")
	}
	if got, err := os.ReadFile(out); err != nil || !bytes.Equal(got, orig) {
		t.Errorf("the existing output was replaced by a partial file after the aborted import (len %d -> %d, err=%v)", len(orig), len(got), err)
	}
	es, _ := os.ReadDir(dir)
	for _, e := range es {
		if e.Name() != "out.pdf" {
			t.Errorf("leftover %s", e.Name())
		}
	}
}
