// Demonstration for the C01/C02 known findings "in-place incremental writers"
// (copy into pkg/api/, package api_test; go test -run TestC01InPlaceIncrement ./pkg/api).
// AddAnnotationsFile(in, "", ..., incr=true) opens the input O_RDWR and appends the increment to it:
// an operation that aborts while writing leaves the input file modified (partial increment).
package api_test

import (
	"bytes"
	"os"
	"path/filepath"
	"testing"

	"github.com/pdfcpu/pdfcpu/pkg/api"
	"github.com/pdfcpu/pdfcpu/pkg/log"
	"github.com/pdfcpu/pdfcpu/pkg/pdfcpu/model"
	"github.com/pdfcpu/pdfcpu/pkg/pdfcpu/color"
	"github.com/pdfcpu/pdfcpu/pkg/pdfcpu/types"
)

type c01IncrPanicLogger struct{ n *int }

func (l c01IncrPanicLogger) Printf(format string, args ...interface{}) {
	if true {
		panic("c01 demo: abort while the increment is being written")
	}
}
func (l c01IncrPanicLogger) Println(args ...interface{})               {}
func (l c01IncrPanicLogger) Fatalf(format string, args ...interface{}) {}
func (l c01IncrPanicLogger) Fatalln(args ...interface{})               {}

func TestC01InPlaceIncrement(t *testing.T) {
	dir := t.TempDir()
	in := filepath.Join(dir, "in.pdf")
	orig, err := os.ReadFile(filepath.Join("..", "testdata", "Acroforms2.pdf"))
	if err != nil {
		t.Fatal(err)
	}
	if err := os.WriteFile(in, orig, 0o644); err != nil {
		t.Fatal(err)
	}
	ann := model.NewTextAnnotation(*types.NewRectangle(0, 0, 100, 100), 0, "c", "id", "", 0, &color.Gray, "t", nil, nil, "", "", 0, 0, 0, false, "Comment")
	n := 0
	log.SetWriteLogger(c01IncrPanicLogger{&n})
	func() {
		defer func() {
			log.SetWriteLogger(nil)
			_ = recover()
		}()
		_ = api.AddAnnotationsFile(in, "", []string{"1"}, ann, nil, true)
	}()
	got, _ := os.ReadFile(in)
	if !bytes.Equal(got, orig) {
		t.Errorf("the input file was modified by the aborted operation: %d -> %d bytes", len(orig), len(got))
	}
}
