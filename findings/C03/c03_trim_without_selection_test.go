package api

import (
	"os"
	"path/filepath"
	"testing"
)

// Demonstration for C03 / C01 (copy into pkg/api/): Trim returned nil without writing when the page selection was
// empty ("aborted: missing page numbers!"), and TrimFile commits its staged output whenever Trim returns nil — so a
// successful TrimFile(in, out, nil, nil) published a 0-byte out, and the in-place form replaced the input with an
// empty file.
func TestC03TrimWithoutSelectionDoesNotPublishAnEmptyFile(t *testing.T) {
	dir := t.TempDir()
	src, err := os.ReadFile(filepath.Join("..", "testdata", "Acroforms2.pdf"))
	if err != nil {
		t.Skip(err)
	}
	in := filepath.Join(dir, "in.pdf")
	if err := os.WriteFile(in, src, 0o644); err != nil {
		t.Fatal(err)
	}
	out := filepath.Join(dir, "out.pdf")
	err = TrimFile(in, out, nil, nil)
	if fi, statErr := os.Stat(out); statErr == nil && fi.Size() == 0 {
		t.Errorf("TrimFile returned %v and published an empty %s", err, out)
	}
	if err == nil {
		if fi, statErr := os.Stat(out); statErr != nil || fi.Size() == 0 {
			t.Errorf("TrimFile reported success without a usable output")
		}
	}
	// in place
	err = TrimFile(in, "", nil, nil)
	fi, statErr := os.Stat(in)
	if statErr == nil && fi.Size() == 0 {
		t.Errorf("in-place TrimFile (returned %v) replaced the input with an empty file", err)
	}
	if statErr != nil {
		t.Errorf("in-place TrimFile (returned %v): input gone: %v", err, statErr)
	}
}
