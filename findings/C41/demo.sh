#!/bin/bash
# usage: demo.sh /path/to/pdfcpu   (run from the pdfcpu repository root)
set -eu
P="$1"; S=pkg/testdata; T=$(mktemp -d); trap 'rm -rf "$T"' EXIT
"$P" merge -c disable "$T/f.pdf" $S/Acroforms2.pdf $S/adobe_errata.pdf >/dev/null
"$P" merge -c disable "$T/s.pdf" $S/Acroforms2.pdf - < $S/adobe_errata.pdf >/dev/null
a=$("$P" bookmarks list -c disable "$T/f.pdf" | grep -vc optimizing || true)
b=$("$P" bookmarks list -c disable "$T/s.pdf" | grep -c "no bookmarks" || true)
echo "file invocation: $a outline lines; stdin invocation reports no bookmarks: $b"
[ "$a" -gt 2 ] && [ "$b" -eq 1 ] && echo "DIFFERENT DOCUMENTS (finding reproduced)"
