package cli

import (
	"bytes"
	"image"
	"image/png"
	"io"
	"os"
	"path/filepath"
	"testing"

	"github.com/pdfcpu/pdfcpu/pkg/pdfcpu"
	"github.com/pdfcpu/pdfcpu/pkg/pdfcpu/model"
)

// Demonstration for C41 (copy into pkg/cli/): importing an image that arrives on a stream into a NEW output file.
// importImagesToFile handed api.ImportImages a nil *os.File as its io.ReadSeeker; the interface is not nil, so the API
// tried to read a PDF from the nil file and the stream invocation ("pdfcpu import new.pdf -") failed with "invalid
// argument", while the same import with an image file name works.
func TestC41ImportStreamIntoNewOutput(t *testing.T) {
	var img bytes.Buffer
	if err := png.Encode(&img, image.NewRGBA(image.Rect(0, 0, 4, 4))); err != nil {
		t.Fatal(err)
	}
	out := filepath.Join(t.TempDir(), "new.pdf")
	err := importImagesToFile(out, []io.Reader{bytes.NewReader(img.Bytes())}, nil, pdfcpu.DefaultImportConfig(), model.NewDefaultConfiguration())
	if err != nil {
		t.Fatalf("import of a streamed image into a new output: %v", err)
	}
	if fi, err := os.Stat(out); err != nil || fi.Size() == 0 {
		t.Fatalf("no output written: %v", err)
	}
}
