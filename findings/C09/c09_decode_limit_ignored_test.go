// Demonstration for the C09 finding "limit-less sd.Decode() call sites ignore the configured MaxDecodeBytes"
// (copy into pkg/api/, package api_test; go test -run TestC09ExtractContentHonoursDecodeLimit ./pkg/api).
// A 5 MB page content stream (a few KB compressed) must be rejected with a limit error when
// conf.Limits.MaxDecodeBytes is 100000; instead ExtractContent materialised and wrote all 5 MB.
package api_test

import (
	"bytes"
	"compress/zlib"
	"fmt"
	"os"
	"path/filepath"
	"testing"

	"github.com/pdfcpu/pdfcpu/pkg/api"
	"github.com/pdfcpu/pdfcpu/pkg/pdfcpu/model"
)

func c09BuildPDF(objs []string) []byte {
	var b bytes.Buffer
	b.WriteString("%PDF-1.7\n")
	offs := make([]int, len(objs)+1)
	for i, o := range objs {
		offs[i+1] = b.Len()
		fmt.Fprintf(&b, "%d 0 obj\n%s\nendobj\n", i+1, o)
	}
	x := b.Len()
	fmt.Fprintf(&b, "xref\n0 %d\n0000000000 65535 f \n", len(objs)+1)
	for i := 1; i <= len(objs); i++ {
		fmt.Fprintf(&b, "%010d 00000 n \n", offs[i])
	}
	fmt.Fprintf(&b, "trailer\n<</Size %d /Root 1 0 R>>\nstartxref\n%d\n%%%%EOF\n", len(objs)+1, x)
	return b.Bytes()
}

func TestC09ExtractContentHonoursDecodeLimit(t *testing.T) {
	const decoded = 5_000_000
	var z bytes.Buffer
	w := zlib.NewWriter(&z)
	w.Write(bytes.Repeat([]byte(" "), decoded))
	w.Close()
	stream := fmt.Sprintf("<</Length %d /Filter /FlateDecode>>\nstream\n%s\nendstream", z.Len(), z.String())
	pdf := c09BuildPDF([]string{
		"<</Type /Catalog /Pages 2 0 R>>",
		"<</Type /Pages /Kids [3 0 R] /Count 1>>",
		"<</Type /Page /Parent 2 0 R /MediaBox [0 0 200 200] /Contents 4 0 R>>",
		stream,
	})
	dir := t.TempDir()
	in := filepath.Join(dir, "bomb.pdf")
	if err := os.WriteFile(in, pdf, 0o644); err != nil {
		t.Fatal(err)
	}
	t.Logf("input size %d bytes, decoded content %d bytes", len(pdf), decoded)
	conf := model.NewDefaultConfiguration()
	conf.Limits.MaxDecodeBytes = 100_000
	out := filepath.Join(dir, "out")
	os.Mkdir(out, 0o755)
	err := api.ExtractContentFile(in, out, nil, conf)
	var total int64
	es, _ := os.ReadDir(out)
	for _, e := range es {
		if fi, err := e.Info(); err == nil {
			total += fi.Size()
		}
	}
	t.Logf("ExtractContentFile err=%v, bytes written=%d", err, total)
	if err == nil || total > conf.Limits.MaxDecodeBytes {
		t.Errorf("a decoded stream of %d bytes was materialised although MaxDecodeBytes is %d (err=%v)", total, conf.Limits.MaxDecodeBytes, err)
	}
}
