package pdfcpu

import (
	"testing"

	"github.com/pdfcpu/pdfcpu/pkg/pdfcpu/types"
)

// Demonstration for C40 (copy into pkg/pdfcpu/): parsing a resize or poster configuration with a
// landscape form size ("A4L") swapped width and height IN the shared types.PaperSize table: the
// entry is a *Dim and the parsers modified it through the pointer. Every later operation of the
// process — on any goroutine — then saw A4 as 842 x 595, and "each operation produces the same
// result it would produce when run alone" no longer holds (two concurrent calls also race on it).
func TestC40PaperSizeTableIsNotModifiedByParsing(t *testing.T) {
	w, h := types.PaperSize["A4"].Width, types.PaperSize["A4"].Height
	w3, h3 := types.PaperSize["A3"].Width, types.PaperSize["A3"].Height

	res, err := ParseResizeConfig("form:A4L", types.POINTS)
	if err != nil {
		t.Fatal(err)
	}
	if res.PageDim.Width != h || res.PageDim.Height != w {
		t.Fatalf("A4L resize: got %v x %v, want %v x %v", res.PageDim.Width, res.PageDim.Height, h, w)
	}
	if types.PaperSize["A4"].Width != w || types.PaperSize["A4"].Height != h {
		t.Errorf("after parsing form:A4L the shared table says A4 is %v x %v (was %v x %v)", types.PaperSize["A4"].Width, types.PaperSize["A4"].Height, w, h)
	}

	cut, err := ParseCutConfigForPoster("form:A3L", types.POINTS)
	if err != nil {
		t.Fatal(err)
	}
	if cut.PageDim.Width != h3 || cut.PageDim.Height != w3 {
		t.Fatalf("A3L poster: got %v x %v, want %v x %v", cut.PageDim.Width, cut.PageDim.Height, h3, w3)
	}
	if types.PaperSize["A3"].Width != w3 || types.PaperSize["A3"].Height != h3 {
		t.Errorf("after parsing form:A3L the shared table says A3 is %v x %v (was %v x %v)", types.PaperSize["A3"].Width, types.PaperSize["A3"].Height, w3, h3)
	}
}
