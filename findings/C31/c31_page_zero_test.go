package api

import (
	"testing"
)

// Demonstration for C31 (copy into pkg/api/): the selection syntax accepts the page number 0
// ("0", "0-", "0-2"; its number groups are \d+), and the pinned tree put page 0 into the selection
// set and into page collections, outside 1..pageCount.
func TestC31SelectedPagesStayWithinOneToPageCount(t *testing.T) {
	for _, expr := range []string{"0", "0-", "0-2", "n3,0-", "0,2"} {
		sel, err := ParsePageSelection(expr)
		if err != nil {
			t.Fatalf("%q rejected by the syntax: %v", expr, err)
		}
		m, err := PagesForPageSelection(5, sel, false, false)
		if err != nil {
			t.Fatalf("%q: %v", expr, err)
		}
		for k, v := range m {
			if v && (k < 1 || k > 5) {
				t.Errorf("selection %q on 5 pages selects page %d", expr, k)
			}
		}
		c, err := PagesForPageCollection(5, sel)
		if err != nil {
			continue // "no page selected" is a legitimate outcome for "0"
		}
		for _, k := range c {
			if k < 1 || k > 5 {
				t.Errorf("collection %q on 5 pages lists page %d", expr, k)
			}
		}
	}
}
