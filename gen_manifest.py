#!/usr/bin/env python3
"""Generates /verif/MANIFEST.json from the tables below (kept in one place so the
claimed / not-applicable split is always complete over properties.jsonl)."""
import json, os, sys

HERE = os.path.dirname(os.path.abspath(__file__))
ENV = "static analysis over go/packages+go/types+go/ssa of /repo's working tree; nothing in /repo is executed"

# id -> (level, text, note, technique, design_ref)
CLAIMED = {
 "C42": ("proof",
         "Proof by lemma schema: every CFG path of every checked helper in pkg/pdfcpu/safemath is enumerated and its branch literals matched against Lemma A / Lemma M (DESIGN.md C42); success paths must imply no-overflow, error paths must imply negative operand or overflow, divisions must be guarded. All obligations are discharged syntactically on SSA; covers all operand pairs because the lemmas are universally quantified.",
         "Trusted: Lemma A and Lemma M (pen-and-paper, DESIGN.md), go/ssa's lowering of the helpers, Go integer semantics. Recogniser is sound but incomplete: an unfamiliar idiom is reported as unrecognised schema.",
         "SSA path enumeration + guard-schema matching (lemma instantiation)", "DESIGN.md §4 C42"),
 "C07": ("other",
         "Decides the ordering clauses of the durability statement on every CFG path: data fsync -> close -> rename -> directory fsync in the single-font writer; per-directory typestate (rename dirties both directories, a successful sync*Directories naming them cleans them) in the batch publishers; default operation-table bindings reach (*os.File).Sync / os.Rename and propagate their errors; no call site discards a sync/close/rename error. This is the whole statement except what the kernel does on fsync — ordering is exactly what a must-pass-through analysis decides, and no test can observe it on a live filesystem.",
         "Assumes POSIX fsync/rename semantics; on Windows SyncDirectory is a documented no-op (assumption). Panics between the calls are C01's subject. Trusted: go/ssa CFGs, the error-kind classifier (flow.go) and the field/function names in c07.go.",
         "must-pass-through dataflow on SSA CFGs with success-edge facts; per-directory typestate; operation-table binding resolution", "DESIGN.md §4 C07"),
 "C30": ("other",
         "Decides the egress policy's structural clauses: closed world of http.Client/Transport construction and of calls returning net.Conn; provenance of every client used for Get/Post/Do; shape of the guarded transport (DialContext = guarded factory, Proxy nil, no other dial hook) and client (guarded transport, validating CheckRedirect); dial gate in each guarded dial closure (split -> lookup -> validator on that lookup result dominate every dial; the dialled address is JoinHostPort of a validated IP, never the host name); exhaustive 64-row truth table of the blocked-address predicates over the six net.IP classifiers; validators inspect every DNS answer and only the revocation validator may exit early, on allowed[normalizeRevocationHost(host)]; URL gates (scheme, credentials) before every fetch. Quantifies over all paths and all call sites, which is what redirect chains / mixed answer sets exercise and tests do not.",
         "Assumes net/http dials only through Transport.DialContext when Proxy and DialTLS* are unset, and std-lib semantics of the net.IP classifiers (IPv4-mapped, zoned literals). The opt-in link validator (validate.checkForBrokenLinks) is exempt with reason: not one of the fetch kinds the property enumerates.",
         "who-may-construct/call tables, value provenance tracing, must-pass-through dataflow, truth-table extraction by CFG evaluation", "DESIGN.md §4 C30"),
}

# id -> reason (properties not claimed). PENDING entries are planned in DESIGN.md but the
# rule set is not yet silent-and-sound on the unchanged tree, so they are not claimed.
NOT_APPLICABLE = {
 "C19": "Write/read graph isomorphism quantifies over document contents. The structural parts of writing (offset bookkeeping, free list, section order, lengths) are decided under C18; what is left is equality of object graphs, which no shape of the writer shows.",
 "C21": "'Every output validates' quantifies over operation parameters and document contents; validator acceptance is runtime behaviour. There is no write-side gate to check (operations do not re-validate before writing).",
 "C33": "Page-sequence preservation of split/merge: content-level arithmetic on page lists. The span arithmetic of pkg/api/split.go was read in round 3 (from = i*span+1, thru = min((i+1)*span, pageCount), final partial span) and is correct; nothing beyond arithmetic remains to check structurally.",
 "C34": "Booklet/n-up placement is combinatorial arithmetic over page counts and configurations (permutations of page numbers); no table or sibling pair whose agreement is a necessary condition was found.",
 "C37": "Form export/fill round trip over field values (per field type value formatting and appearance generation): value-level.",
 "C39": "Name-tree ordering/limits invariants are maintained by value comparisons on keys; the insertion, split and limit-update code (model/nameTree.go) was read in round 3 without finding a table or pairing clause; a shape analysis for sorted tree nodes is out of reach with the tools present.",
}

PENDING_REASON = "static rule set designed (DESIGN.md §4) but not yet built/triaged to be silent-and-sound on the unchanged tree; not claimed until it is"


def described():
    import subprocess
    try:
        out = subprocess.run([os.path.join(HERE, "bin/pdfcpu-verif"), "describe"], capture_output=True, text=True, check=True).stdout
        return {d["id"]: d for d in json.loads(out)}
    except Exception as e:
        print("warning: cannot run pdfcpu-verif describe:", e, file=sys.stderr)
        return {}

# properties whose check exists in the checker but is deliberately not registered (with the reason)
HELD_BACK = {}

def main():
    for pid, d in described().items():
        if pid in CLAIMED or pid in HELD_BACK:
            continue
        tech = d.get("technique") or "repository-specific rules over go/types + go/ssa (see evidence rule list)"
        note = d.get("note") or ("Assumptions: " + "; ".join(d.get("assumptions") or []))
        CLAIMED[pid] = (d["level"], d["explanation"], note, tech, "DESIGN.md §4 " + pid)
    props = [json.loads(l) for l in open(os.path.join(HERE, "properties.jsonl"))]
    ids = [p["id"] for p in props]
    checks, na = [], []
    for pid in ids:
        if pid in CLAIMED:
            level, text, note, tech, ref = CLAIMED[pid]
            checks.append({
                "property_id": pid,
                "quick_cmd": f"./check.sh {pid} quick",
                "thorough_cmd": f"./check.sh {pid} thorough",
                "evidence_file": f"/verif/evidence/{pid}.json",
                "replay_cmd_template": "cat {path}",
                "engine": "pdfcpu-verif",
                "level_claimed": {"category": level, "text": text, "design_ref": ref},
                "level_note": note,
                "technique": "static analysis: " + tech,
            })
        else:
            na.append({"property_id": pid, "reason": HELD_BACK.get(pid) or NOT_APPLICABLE.get(pid, PENDING_REASON)})
    m = {
        "version": 1,
        "setup_cmd": "./setup.sh",
        "hooks": {
            "guard": "verif",
            "enable": "no hooks: the checks read /repo's source as it is (go/packages loads the working tree on every run)",
            "baseline_off_cmd": json.load(open("/root/.vp/BASELINE.json"))["cmd"] if os.path.exists("/root/.vp/BASELINE.json") else "",
            "source_commits": [],
            "add_only": True,
        },
        "engines": [{
            "name": "pdfcpu-verif",
            "path": "/verif/checker",
            "serves_properties": sorted(CLAIMED),
            "kind_free_text": ENV,
        }],
        "checks": checks,
        "notes": "All checks are static (family: static analysis). quick = linux/amd64 configuration; thorough = linux/amd64, windows/amd64, linux/386, linux/amd64+pdfcpu_eutl plus the overlay mutation self-test (fixtures/ and seeded/). Known findings: /verif/known_findings.json.",
        "not_applicable": na,
    }
    json.dump(m, open(os.path.join(HERE, "MANIFEST.json"), "w"), indent=1)
    print(f"claimed {len(checks)}, not claimed {len(na)}")


if __name__ == "__main__":
    main()
